//! `rsh run <casefile> <resultfile> [--alloc]`: the op-sequence interpreter.

use std::fs::File;
use std::io::{self, BufWriter, Write};
use std::sync::LazyLock;

use reed_solomon_simd::{
    engine::{tables, DefaultEngine, Engine, GfElement, ShardsRefMut, GF_ORDER},
    rate::{
        DecoderWork, DefaultRate, DefaultRateDecoder, DefaultRateEncoder, EncoderWork, HighRate,
        HighRateDecoder, HighRateEncoder, LowRate, LowRateDecoder, LowRateEncoder, Rate,
        RateDecoder, RateEncoder,
    },
    Error, ReedSolomonDecoder, ReedSolomonEncoder,
};

use crate::alloc;
use crate::obj::{engine_status, guard, guard_norec, new_dec, new_enc, DecObj, Dispatch, EncObj, New};
use crate::util::{
    hex_decode, parse_u64, parse_usize, put_num, put_payload, splitmix_bytes, to_blocks,
};
use crate::with_engine;

type R<T> = Result<T, String>;

// ======================================================================
// Error formatting

macro_rules! fmt_err_impl {
    ($name:ident, $ty:ty) => {
        fn $name(out: &mut Vec<u8>, e: &$ty) {
            type E = $ty;
            let (name, f): (&str, [Option<usize>; 3]) = match *e {
                E::DifferentShardSize { shard_bytes, got } => {
                    ("DifferentShardSize", [Some(shard_bytes), Some(got), None])
                }
                E::DuplicateOriginalShardIndex { index } => {
                    ("DuplicateOriginalShardIndex", [Some(index), None, None])
                }
                E::DuplicateRecoveryShardIndex { index } => {
                    ("DuplicateRecoveryShardIndex", [Some(index), None, None])
                }
                E::InvalidOriginalShardIndex {
                    original_count,
                    index,
                } => (
                    "InvalidOriginalShardIndex",
                    [Some(original_count), Some(index), None],
                ),
                E::InvalidRecoveryShardIndex {
                    recovery_count,
                    index,
                } => (
                    "InvalidRecoveryShardIndex",
                    [Some(recovery_count), Some(index), None],
                ),
                E::InvalidShardSize { shard_bytes } => {
                    ("InvalidShardSize", [Some(shard_bytes), None, None])
                }
                E::NotEnoughShards {
                    original_count,
                    original_received_count,
                    recovery_received_count,
                } => (
                    "NotEnoughShards",
                    [
                        Some(original_count),
                        Some(original_received_count),
                        Some(recovery_received_count),
                    ],
                ),
                E::TooFewOriginalShards {
                    original_count,
                    original_received_count,
                } => (
                    "TooFewOriginalShards",
                    [Some(original_count), Some(original_received_count), None],
                ),
                E::TooManyOriginalShards { original_count } => {
                    ("TooManyOriginalShards", [Some(original_count), None, None])
                }
                E::UnsupportedShardCount {
                    original_count,
                    recovery_count,
                } => (
                    "UnsupportedShardCount",
                    [Some(original_count), Some(recovery_count), None],
                ),
            };
            out.extend_from_slice(b"err ");
            out.extend_from_slice(name.as_bytes());
            for v in f.iter().flatten() {
                out.push(b' ');
                put_num(out, *v as u64);
            }
        }
    };
}

fmt_err_impl!(put_err, Error);
fmt_err_impl!(put_err16, reed_solomon_16::Error);

/// Writes `ok` / `err …` / `panic` for a guarded `Result<(), Error>` call.
/// Returns `true` if the call panicked.
fn put_unit(out: &mut Vec<u8>, r: Result<Result<(), Error>, ()>) -> bool {
    match r {
        Ok(Ok(())) => {
            out.extend_from_slice(b"ok");
            false
        }
        Ok(Err(e)) => {
            put_err(out, &e);
            false
        }
        Err(()) => {
            out.extend_from_slice(b"panic");
            true
        }
    }
}

// ======================================================================
// Case state

#[derive(Default)]
struct Case {
    enc: Option<Box<dyn EncObj>>,
    dec: Option<Box<dyn DecObj>>,
    encwork: Option<EncoderWork>,
    decwork: Option<DecoderWork>,
    /// Payloads handed to `E.add` in the current encoder round (`@o<i>`).
    olist: Vec<Vec<u8>>,
    /// Recovery shards of the last successful `E.encode` (`@r<j>`).
    rlist: Vec<Vec<u8>>,
}

fn args<'a, const N: usize>(toks: &[&'a [u8]]) -> R<[&'a [u8]; N]> {
    <[&[u8]; N]>::try_from(toks).map_err(|_| format!("expected-{}-args-got-{}", N, toks.len()))
}

fn lossy(s: &[u8]) -> String {
    let s = if s.len() > 40 { &s[..40] } else { s };
    String::from_utf8_lossy(s).replace(' ', "_")
}

impl Case {
    fn payload(&self, tok: &[u8]) -> R<Vec<u8>> {
        match tok.first() {
            None => Err("empty-payload-token".into()),
            Some(b'-') if tok.len() == 1 => Ok(Vec::new()),
            Some(b'#') => {
                let body = &tok[1..];
                let colon = body
                    .iter()
                    .position(|&b| b == b':')
                    .ok_or_else(|| format!("bad-seed-payload:{}", lossy(tok)))?;
                let seed = parse_u64(&body[..colon])?;
                let len = parse_usize(&body[colon + 1..])?;
                Ok(splitmix_bytes(seed, len))
            }
            Some(b'@') => {
                if tok.len() < 3 {
                    return Err(format!("bad-ref:{}", lossy(tok)));
                }
                let idx = parse_usize(&tok[2..])?;
                let list = match tok[1] {
                    b'o' => &self.olist,
                    b'r' => &self.rlist,
                    _ => return Err(format!("bad-ref:{}", lossy(tok))),
                };
                Ok(list.get(idx).cloned().unwrap_or_default())
            }
            Some(_) => hex_decode(tok).map_err(|e| format!("{}:{}", e, lossy(tok))),
        }
    }

    /// Comma list of payloads; a lone `-` is the empty list.
    fn payload_list(&self, tok: &[u8]) -> R<Vec<Vec<u8>>> {
        if tok == b"-" {
            return Ok(Vec::new());
        }
        tok.split(|&b| b == b',').map(|t| self.payload(t)).collect()
    }

    /// Comma list of `idx:payload`; a lone `-` is the empty list.
    fn indexed_list(&self, tok: &[u8]) -> R<Vec<(usize, Vec<u8>)>> {
        if tok == b"-" {
            return Ok(Vec::new());
        }
        tok.split(|&b| b == b',')
            .map(|t| {
                let colon = t
                    .iter()
                    .position(|&b| b == b':')
                    .ok_or_else(|| format!("bad-indexed-item:{}", lossy(t)))?;
                Ok((parse_usize(&t[..colon])?, self.payload(&t[colon + 1..])?))
            })
            .collect()
    }

    fn exec(&mut self, name: &[u8], a: &[&[u8]], out: &mut Vec<u8>) -> R<()> {
        match name {
            // ------------------------------------------------------ encoder
            b"E.new" | b"E.neww" => {
                let [codec, engine, k, r, sb] = args(a)?;
                let (k, r, sb) = (parse_usize(k)?, parse_usize(r)?, parse_usize(sb)?);
                if !engine_status(codec, engine)? {
                    out.extend_from_slice(b"noengine");
                    return Ok(());
                }
                let work = if name == b"E.neww" && codec != b"rs" {
                    self.encwork.take()
                } else {
                    None
                };
                match new_enc(codec, engine, k, r, sb, work) {
                    Dispatch::Done(New::Ok(obj)) => {
                        self.enc = Some(obj);
                        self.olist.clear();
                        out.extend_from_slice(b"ok");
                    }
                    Dispatch::Done(New::Err(e)) => put_err(out, &e),
                    Dispatch::Done(New::Panic) => {
                        self.enc = None;
                        out.extend_from_slice(b"panic");
                    }
                    Dispatch::Done(New::BadCodec) => return Err("bad-codec".into()),
                    Dispatch::NoEngine => out.extend_from_slice(b"noengine"),
                    Dispatch::BadEngine => return Err("bad-engine".into()),
                }
            }
            b"E.parts" => {
                let [] = args(a)?;
                match self.enc.take() {
                    None => out.extend_from_slice(b"noobj"),
                    Some(obj) => match guard(move || obj.into_work()) {
                        Ok(Some(w)) => {
                            self.encwork = Some(w);
                            out.extend_from_slice(b"ok");
                        }
                        Ok(None) => out.extend_from_slice(b"ok"),
                        Err(()) => out.extend_from_slice(b"panic"),
                    },
                }
            }
            b"E.reset" => {
                let [k, r, sb] = args(a)?;
                let (k, r, sb) = (parse_usize(k)?, parse_usize(r)?, parse_usize(sb)?);
                match self.enc.as_mut() {
                    None => out.extend_from_slice(b"noobj"),
                    Some(obj) => {
                        let res = guard(|| obj.reset(k, r, sb));
                        if matches!(res, Ok(Ok(()))) {
                            self.olist.clear();
                        }
                        if put_unit(out, res) {
                            self.enc = None;
                        }
                    }
                }
            }
            b"E.add" => {
                let [p] = args(a)?;
                let p = self.payload(p)?;
                match self.enc.as_mut() {
                    None => out.extend_from_slice(b"noobj"),
                    Some(obj) => {
                        if put_unit(out, guard(|| obj.add(&p))) {
                            self.enc = None;
                        }
                    }
                }
                self.olist.push(p);
            }
            b"E.encode" => {
                let [probes] = args(a)?;
                let probes = parse_probes(probes)?;
                match self.enc.as_mut() {
                    None => out.extend_from_slice(b"noobj"),
                    Some(obj) => match do_encode(obj.as_mut(), &probes, out) {
                        EncOutcome::Ok(it) => self.rlist = it,
                        EncOutcome::Err => {}
                        EncOutcome::Panic => self.enc = None,
                    },
                }
            }
            // ------------------------------------------------------ decoder
            b"D.new" | b"D.neww" => {
                let [codec, engine, k, r, sb] = args(a)?;
                let (k, r, sb) = (parse_usize(k)?, parse_usize(r)?, parse_usize(sb)?);
                if !engine_status(codec, engine)? {
                    out.extend_from_slice(b"noengine");
                    return Ok(());
                }
                let work = if name == b"D.neww" && codec != b"rs" {
                    self.decwork.take()
                } else {
                    None
                };
                match new_dec(codec, engine, k, r, sb, work) {
                    Dispatch::Done(New::Ok(obj)) => {
                        self.dec = Some(obj);
                        out.extend_from_slice(b"ok");
                    }
                    Dispatch::Done(New::Err(e)) => put_err(out, &e),
                    Dispatch::Done(New::Panic) => {
                        self.dec = None;
                        out.extend_from_slice(b"panic");
                    }
                    Dispatch::Done(New::BadCodec) => return Err("bad-codec".into()),
                    Dispatch::NoEngine => out.extend_from_slice(b"noengine"),
                    Dispatch::BadEngine => return Err("bad-engine".into()),
                }
            }
            b"D.parts" => {
                let [] = args(a)?;
                match self.dec.take() {
                    None => out.extend_from_slice(b"noobj"),
                    Some(obj) => match guard(move || obj.into_work()) {
                        Ok(Some(w)) => {
                            self.decwork = Some(w);
                            out.extend_from_slice(b"ok");
                        }
                        Ok(None) => out.extend_from_slice(b"ok"),
                        Err(()) => out.extend_from_slice(b"panic"),
                    },
                }
            }
            b"D.reset" => {
                let [k, r, sb] = args(a)?;
                let (k, r, sb) = (parse_usize(k)?, parse_usize(r)?, parse_usize(sb)?);
                match self.dec.as_mut() {
                    None => out.extend_from_slice(b"noobj"),
                    Some(obj) => {
                        if put_unit(out, guard(|| obj.reset(k, r, sb))) {
                            self.dec = None;
                        }
                    }
                }
            }
            b"D.addo" | b"D.addr" => {
                let [idx, p] = args(a)?;
                let idx = parse_usize(idx)?;
                let p = self.payload(p)?;
                let original = name == b"D.addo";
                match self.dec.as_mut() {
                    None => out.extend_from_slice(b"noobj"),
                    Some(obj) => {
                        let res = guard(|| {
                            if original {
                                obj.addo(idx, &p)
                            } else {
                                obj.addr(idx, &p)
                            }
                        });
                        if put_unit(out, res) {
                            self.dec = None;
                        }
                    }
                }
            }
            b"D.decode" => {
                let [probes] = args(a)?;
                let probes = parse_probes(probes)?;
                match self.dec.as_mut() {
                    None => out.extend_from_slice(b"noobj"),
                    Some(obj) => {
                        if do_decode(obj.as_mut(), &probes, out) {
                            self.dec = None;
                        }
                    }
                }
            }
            // ------------------------------------------------------ static
            b"supports" => {
                let [codec, k, r] = args(a)?;
                let (k, r) = (parse_usize(k)?, parse_usize(r)?);
                let res = match codec {
                    b"rs" => guard_norec(|| {
                        [
                            ReedSolomonEncoder::supports(k, r),
                            ReedSolomonDecoder::supports(k, r),
                            DefaultRate::<DefaultEngine>::supports(k, r),
                        ]
                    }),
                    b"def" => guard_norec(|| supports3::<DefaultRate<DefaultEngine>>(k, r)),
                    b"high" => guard_norec(|| supports3::<HighRate<DefaultEngine>>(k, r)),
                    b"low" => guard_norec(|| supports3::<LowRate<DefaultEngine>>(k, r)),
                    _ => return Err(format!("bad-codec:{}", lossy(codec))),
                };
                match res {
                    Err(()) => out.extend_from_slice(b"panic"),
                    Ok([x, y, z]) if x == y && y == z => {
                        out.extend_from_slice(if x { b"ok true" } else { b"ok false" });
                    }
                    Ok(_) => out.extend_from_slice(b"ok mismatch"),
                }
            }
            b"validate" => {
                let [codec, k, r, sb] = args(a)?;
                let (k, r, sb) = (parse_usize(k)?, parse_usize(r)?, parse_usize(sb)?);
                let res = match codec {
                    // ReedSolomonEncoder/Decoder have no `validate`; `rs` uses
                    // DefaultRate<DefaultEngine> and its encoder/decoder.
                    b"rs" | b"def" => {
                        guard_norec(|| validate3::<DefaultRate<DefaultEngine>>(k, r, sb))
                    }
                    b"high" => guard_norec(|| validate3::<HighRate<DefaultEngine>>(k, r, sb)),
                    b"low" => guard_norec(|| validate3::<LowRate<DefaultEngine>>(k, r, sb)),
                    _ => return Err(format!("bad-codec:{}", lossy(codec))),
                };
                match res {
                    Err(()) => out.extend_from_slice(b"panic"),
                    Ok([x, y, z]) if x == y && y == z => match x {
                        Ok(()) => out.extend_from_slice(b"ok"),
                        Err(e) => put_err(out, &e),
                    },
                    Ok(_) => out.extend_from_slice(b"ok mismatch"),
                }
            }
            // ------------------------------------------------------ one-shot
            b"oneenc" => {
                let [k, r, list] = args(a)?;
                let (k, r) = (parse_usize(k)?, parse_usize(r)?);
                let list = self.payload_list(list)?;
                match guard_norec(|| reed_solomon_simd::encode(k, r, &list)) {
                    Err(()) => out.extend_from_slice(b"panic"),
                    Ok(Err(e)) => put_err(out, &e),
                    Ok(Ok(rec)) => {
                        out.extend_from_slice(b"ok ");
                        put_list(out, rec.iter(), |o, s| put_payload(o, s));
                    }
                }
            }
            b"onedec" => {
                let [k, r, orig, rec] = args(a)?;
                let (k, r) = (parse_usize(k)?, parse_usize(r)?);
                let orig = self.indexed_list(orig)?;
                let rec = self.indexed_list(rec)?;
                let res = guard_norec(|| {
                    reed_solomon_simd::decode(
                        k,
                        r,
                        orig.iter().map(|(i, p)| (*i, p)),
                        rec.iter().map(|(i, p)| (*i, p)),
                    )
                });
                match res {
                    Err(()) => out.extend_from_slice(b"panic"),
                    Ok(Err(e)) => put_err(out, &e),
                    Ok(Ok(map)) => {
                        let mut v: Vec<(usize, Vec<u8>)> = map.into_iter().collect();
                        v.sort_by_key(|x| x.0);
                        out.extend_from_slice(b"ok ");
                        put_list(out, v.iter(), |o, (i, s)| {
                            put_num(o, *i as u64);
                            o.push(b':');
                            put_payload(o, s);
                        });
                    }
                }
            }
            b"rs16" => {
                let [k, r, list] = args(a)?;
                let (k, r) = (parse_usize(k)?, parse_usize(r)?);
                let list = self.payload_list(list)?;
                match guard_norec(|| reed_solomon_16::encode(k, r, &list)) {
                    Err(()) => out.extend_from_slice(b"panic"),
                    Ok(Err(e)) => put_err16(out, &e),
                    Ok(Ok(rec)) => {
                        out.extend_from_slice(b"ok ");
                        put_list(out, rec.iter(), |o, s| put_payload(o, s));
                    }
                }
            }
            // ------------------------------------------------------ primitives
            b"P.fft" | b"P.ifft" => {
                let [engine, count, len64, pos, size, trunc, skew, p] = args(a)?;
                let count = parse_usize(count)?;
                let len64 = parse_usize(len64)?;
                let pos = parse_usize(pos)?;
                let size = parse_usize(size)?;
                let trunc = parse_usize(trunc)?;
                let skew = parse_usize(skew)?;
                let p = self.payload(p)?;
                if p.len() % 64 != 0 {
                    return Err("payload-not-multiple-of-64".into());
                }
                let inverse = name == b"P.ifft";
                let d = with_engine!(
                    engine,
                    prim_fft(inverse, count, len64, pos, size, trunc, skew, &p)
                );
                put_prim(out, d)?;
            }
            b"P.mul" => {
                let [engine, log_m, p] = args(a)?;
                let log_m = parse_u64(log_m)?;
                let log_m =
                    GfElement::try_from(log_m).map_err(|_| "log_m-out-of-range".to_string())?;
                let p = self.payload(p)?;
                if p.len() % 64 != 0 {
                    return Err("payload-not-multiple-of-64".into());
                }
                let d = with_engine!(engine, prim_mul(log_m, &p));
                put_prim(out, d)?;
            }
            b"P.evalpoly" => {
                let [engine, trunc, sparse] = args(a)?;
                let trunc = parse_usize(trunc)?;
                let mut er: Box<[GfElement; GF_ORDER]> = vec![0u16; GF_ORDER]
                    .into_boxed_slice()
                    .try_into()
                    .map_err(|_| "internal".to_string())?;
                parse_sparse(sparse, &mut er)?;
                let d = with_engine!(engine, prim_evalpoly(trunc, er));
                put_prim(out, d)?;
            }
            _ => return Err(format!("unknown-op:{}", lossy(name))),
        }
        Ok(())
    }
}

// ======================================================================
// Helpers for individual ops

fn parse_probes(tok: &[u8]) -> R<Vec<usize>> {
    if tok == b"-" {
        return Ok(Vec::new());
    }
    tok.split(|&b| b == b',').map(parse_usize).collect()
}

fn parse_sparse(tok: &[u8], er: &mut [GfElement; GF_ORDER]) -> R<()> {
    if tok == b"-" {
        return Ok(());
    }
    for item in tok.split(|&b| b == b',') {
        let colon = item
            .iter()
            .position(|&b| b == b':')
            .ok_or_else(|| format!("bad-sparse-item:{}", lossy(item)))?;
        let v = parse_u64(&item[colon + 1..])?;
        let v = GfElement::try_from(v).map_err(|_| "sparse-value-out-of-range".to_string())?;
        let range = &item[..colon];
        let (lo, hi) = match range.iter().position(|&b| b == b'-') {
            Some(d) => (parse_usize(&range[..d])?, parse_usize(&range[d + 1..])?),
            None => {
                let i = parse_usize(range)?;
                (i, i)
            }
        };
        if lo > hi || hi >= GF_ORDER {
            return Err(format!("sparse-index-out-of-range:{}", lossy(item)));
        }
        er[lo..=hi].fill(v);
    }
    Ok(())
}

fn put_list<T>(out: &mut Vec<u8>, items: impl Iterator<Item = T>, f: impl Fn(&mut Vec<u8>, T)) {
    let mut first = true;
    for it in items {
        if !first {
            out.push(b',');
        }
        first = false;
        f(out, it);
    }
    if first {
        out.push(b'-');
    }
}

fn put_xflags(out: &mut Vec<u8>, x: [bool; 3]) {
    for s in x {
        out.push(if s { b'S' } else { b'N' });
    }
}

fn put_probe_results(out: &mut Vec<u8>, p: &[(usize, Option<Vec<u8>>)]) {
    put_list(out, p.iter(), |o, (i, v)| {
        put_num(o, *i as u64);
        o.push(b'=');
        match v {
            Some(s) => put_payload(o, s),
            None => o.extend_from_slice(b"none"),
        }
    });
}

enum EncOutcome {
    /// Success; carries the collected recovery shards (the new `@r` list).
    Ok(Vec<Vec<u8>>),
    Err,
    Panic,
}

fn do_encode(obj: &mut dyn EncObj, probes: &[usize], out: &mut Vec<u8>) -> EncOutcome {
    let result = match guard(|| obj.encode()) {
        Err(()) => {
            out.extend_from_slice(b"panic");
            return EncOutcome::Panic;
        }
        Ok(Err(e)) => {
            put_err(out, &e);
            return EncOutcome::Err;
        }
        Ok(Ok(result)) => result,
    };

    // Harness-side copying (not recorded), still under catch_unwind because it
    // calls into the crate.
    let collected = guard_norec(|| {
        let mut iter = result.recovery_iter();
        let mut it: Vec<Vec<u8>> = Vec::new();
        for shard in iter.by_ref() {
            it.push(shard.to_vec());
        }
        let x = [
            iter.next().is_some(),
            iter.next().is_some(),
            iter.next().is_some(),
        ];
        let p: Vec<(usize, Option<Vec<u8>>)> = probes
            .iter()
            .map(|&i| (i, result.recovery(i).map(<[u8]>::to_vec)))
            .collect();
        (it, x, p)
    });

    // Drop of the result is a crate call (it resets the encoder).
    let dropped = guard(move || drop(result));

    match (collected, dropped) {
        (Ok((it, x, p)), Ok(())) => {
            out.extend_from_slice(b"ok it=");
            put_list(out, it.iter(), |o, s| put_payload(o, s));
            out.extend_from_slice(b" x=");
            put_xflags(out, x);
            out.extend_from_slice(b" p=");
            put_probe_results(out, &p);
            EncOutcome::Ok(it)
        }
        _ => {
            out.extend_from_slice(b"panic");
            EncOutcome::Panic
        }
    }
}

/// Returns `true` if the op panicked.
fn do_decode(obj: &mut dyn DecObj, probes: &[usize], out: &mut Vec<u8>) -> bool {
    let result = match guard(|| obj.decode()) {
        Err(()) => {
            out.extend_from_slice(b"panic");
            return true;
        }
        Ok(Err(e)) => {
            put_err(out, &e);
            return false;
        }
        Ok(Ok(result)) => result,
    };

    let collected = guard_norec(|| {
        let mut iter = result.restored_original_iter();
        let mut it: Vec<(usize, Vec<u8>)> = Vec::new();
        for (i, shard) in iter.by_ref() {
            it.push((i, shard.to_vec()));
        }
        let x = [
            iter.next().is_some(),
            iter.next().is_some(),
            iter.next().is_some(),
        ];
        let p: Vec<(usize, Option<Vec<u8>>)> = probes
            .iter()
            .map(|&i| (i, result.restored_original(i).map(<[u8]>::to_vec)))
            .collect();
        (it, x, p)
    });

    let dropped = guard(move || drop(result));

    match (collected, dropped) {
        (Ok((it, x, p)), Ok(())) => {
            out.extend_from_slice(b"ok it=");
            put_list(out, it.iter(), |o, (i, s)| {
                put_num(o, *i as u64);
                o.push(b':');
                put_payload(o, s);
            });
            out.extend_from_slice(b" x=");
            put_xflags(out, x);
            out.extend_from_slice(b" p=");
            put_probe_results(out, &p);
            false
        }
        _ => {
            out.extend_from_slice(b"panic");
            true
        }
    }
}

fn supports3<Rt: Rate<DefaultEngine>>(k: usize, r: usize) -> [bool; 3] {
    [
        <Rt::RateEncoder as RateEncoder<DefaultEngine>>::supports(k, r),
        <Rt::RateDecoder as RateDecoder<DefaultEngine>>::supports(k, r),
        Rt::supports(k, r),
    ]
}

fn validate3<Rt: Rate<DefaultEngine>>(k: usize, r: usize, sb: usize) -> [Result<(), Error>; 3] {
    [
        Rt::validate(k, r, sb),
        <Rt::RateEncoder as RateEncoder<DefaultEngine>>::validate(k, r, sb),
        <Rt::RateDecoder as RateDecoder<DefaultEngine>>::validate(k, r, sb),
    ]
}

/// Result of a primitive op: `Ok(bytes)` or `Err(())` = panic.
type Prim = Result<Vec<u8>, ()>;

fn put_prim(out: &mut Vec<u8>, d: Dispatch<Prim>) -> R<()> {
    match d {
        Dispatch::Done(Ok(bytes)) => {
            out.extend_from_slice(b"ok ");
            put_payload(out, &bytes);
        }
        Dispatch::Done(Err(())) => out.extend_from_slice(b"panic"),
        Dispatch::NoEngine => out.extend_from_slice(b"noengine"),
        Dispatch::BadEngine => return Err("bad-engine".into()),
    }
    Ok(())
}

#[allow(clippy::too_many_arguments)]
fn prim_fft<E: Engine>(
    ctor: fn() -> E,
    inverse: bool,
    count: usize,
    len64: usize,
    pos: usize,
    size: usize,
    trunc: usize,
    skew: usize,
    payload: &[u8],
) -> Prim {
    let mut buf = to_blocks(payload);
    guard_norec(|| {
        let engine = ctor();
        let mut data = ShardsRefMut::new(count, len64, &mut buf);
        if inverse {
            engine.ifft(&mut data, pos, size, trunc, skew);
        } else {
            engine.fft(&mut data, pos, size, trunc, skew);
        }
    })?;
    Ok(buf.as_flattened().to_vec())
}

fn prim_mul<E: Engine>(ctor: fn() -> E, log_m: GfElement, payload: &[u8]) -> Prim {
    let mut buf = to_blocks(payload);
    guard_norec(|| {
        let engine = ctor();
        engine.mul(&mut buf, log_m);
    })?;
    Ok(buf.as_flattened().to_vec())
}

fn prim_evalpoly<E: Engine>(
    _ctor: fn() -> E,
    trunc: usize,
    mut er: Box<[GfElement; GF_ORDER]>,
) -> Prim {
    guard_norec(|| E::eval_poly(&mut er, trunc))?;
    let mut bytes = Vec::with_capacity(GF_ORDER * 2);
    for v in er.iter() {
        bytes.extend_from_slice(&v.to_be_bytes());
    }
    Ok(bytes)
}

// Referenced so that the concrete codec types are checked to exist.
#[allow(dead_code)]
type _Codecs = (
    DefaultRateEncoder<DefaultEngine>,
    DefaultRateDecoder<DefaultEngine>,
    HighRateEncoder<DefaultEngine>,
    HighRateDecoder<DefaultEngine>,
    LowRateEncoder<DefaultEngine>,
    LowRateDecoder<DefaultEngine>,
);

// ======================================================================
// File processing

pub fn force_tables() {
    LazyLock::force(&tables::EXP_LOG);
    LazyLock::force(&tables::LOG_WALSH);
    LazyLock::force(&tables::MUL16);
    LazyLock::force(&tables::MUL128);
    LazyLock::force(&tables::SKEW);
}

fn trim_end(mut line: &[u8]) -> &[u8] {
    while let Some((&last, rest)) = line.split_last() {
        if last == b' ' || last == b'\r' || last == b'\t' {
            line = rest;
        } else {
            break;
        }
    }
    line
}

/// Splits `s` on the separator `" ; "`.
fn split_ops(s: &[u8]) -> Vec<&[u8]> {
    let mut ops = Vec::new();
    let mut start = 0;
    let mut i = 0;
    while i < s.len() {
        match s[i..].iter().position(|&b| b == b';') {
            None => break,
            Some(rel) => {
                let p = i + rel;
                if p >= 1 && p + 1 < s.len() && s[p - 1] == b' ' && s[p + 1] == b' ' && p - 1 >= start
                {
                    ops.push(&s[start..p - 1]);
                    start = p + 2;
                    i = start;
                } else {
                    i = p + 1;
                }
            }
        }
    }
    ops.push(&s[start.min(s.len())..]);
    ops
}

fn run_case(line: &[u8], w: &mut impl Write, buf: &mut Vec<u8>) -> io::Result<()> {
    let (id, rest) = match line.iter().position(|&b| b == b' ') {
        Some(p) => (&line[..p], &line[p + 1..]),
        None => (line, &line[line.len()..]),
    };
    if rest.is_empty() {
        return Ok(());
    }
    let alloc_mode = alloc::mode();
    let mut case = Case::default();
    for (idx, op) in split_ops(rest).into_iter().enumerate() {
        buf.clear();
        buf.extend_from_slice(id);
        buf.push(b' ');
        put_num(buf, idx as u64);
        buf.push(b' ');
        let start = buf.len();

        let toks: Vec<&[u8]> = op.split(|&b| b == b' ').collect();
        let name = toks[0];
        alloc::clear();
        if let Err(msg) = case.exec(name, &toks[1..], buf) {
            buf.truncate(start);
            buf.extend_from_slice(b"badcase ");
            buf.extend_from_slice(msg.as_bytes());
        }
        alloc::stop();

        if alloc_mode && (name.starts_with(b"E.") || name.starts_with(b"D.")) {
            buf.extend_from_slice(b" A=");
            if &buf[start..buf.len() - 3] == b"panic" {
                // Allocations of the panic machinery are not meaningful.
                buf.push(b'-');
            } else {
                let (sizes, overflow) = alloc::recorded();
                put_list(buf, sizes.iter(), |o, s| put_num(o, *s as u64));
                if overflow {
                    buf.extend_from_slice(b",OVERFLOW");
                }
            }
        }
        buf.push(b'\n');
        w.write_all(buf)?;
    }
    // Dropping the slots runs crate destructors.
    let _ = guard_norec(move || drop(case));
    Ok(())
}

pub fn run(casefile: &str, resultfile: &str, alloc_mode: bool) -> io::Result<()> {
    let data = std::fs::read(casefile)?;
    let mut w = BufWriter::with_capacity(1 << 20, File::create(resultfile)?);

    if let Ok(v) = std::env::var("VERIF_POISON") {
        if let Ok(seed) = v.trim().parse::<u64>() {
            if seed != 0 {
                reed_solomon_simd::verif::set_poison(Some(seed));
            }
        }
    }

    if alloc_mode {
        force_tables();
        alloc::set_mode(true);
    }

    let mut buf: Vec<u8> = Vec::with_capacity(1 << 16);
    for line in data.split(|&b| b == b'\n') {
        let line = trim_end(line);
        if line.is_empty() || line[0] == b'#' {
            continue;
        }
        run_case(line, &mut w, &mut buf)?;
    }
    w.flush()
}
