#!/bin/bash
# development helper: apply a seeded change to /repo, run the given checks, undo the change
patch=$1; shift
cd /repo || exit 2
git apply "$patch" || { echo "patch does not apply"; exit 2; }
for p in "$@"; do
  s=$(date +%s); (cd /verif && ./check $p --tier quick > build/mut_$p.txt 2>&1); rc=$?; e=$(date +%s)
  echo "$(basename $(dirname $patch)) $p rc=$rc $((e-s))s $(grep -m1 VIOLATION /verif/build/mut_$p.txt | cut -c1-150)"
  python3 - <<PY
import json,glob,re
m=re.search(r'replay=(\S+)', open('/verif/build/mut_$p.txt').read())
if m:
    r=json.load(open(m.group(1))); print('   ', r['summary'][:300])
PY
done
git -C /repo checkout -- . ; git -C /repo status --short | head -3
