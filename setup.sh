#!/bin/bash
# Build the verification machinery from files on disk only (offline).
set -e
cd "$(dirname "$0")"
export CARGO_NET_OFFLINE=true
mkdir -p build evidence replays
( cd rs2v && cargo build --offline --release 2>&1 | tail -2 )
( cd harness && cp -n /repo/Cargo.lock Cargo.lock 2>/dev/null || true; cargo build --offline --release 2>&1 | tail -2; cargo build --offline 2>&1 | tail -2 )
./rs2v/target/release/rs2v /repo/src coq/Gen
( cd coq && coq_makefile -f _CoqProject -o Makefile > /dev/null && make -j16 2>&1 | grep -v "^COQ\|^Closed\|^ *$" | tail -20 )
cp coq/model.ml coq/model.mli ocaml/
( cd ocaml && dune build ./driver.exe 2>&1 | tail -5 )
test -x ocaml/_build/default/driver.exe && test -x harness/target/release/rsh && test -x harness/target/debug/rsh && echo "setup ok"
