//! GenStatics.v: statics of the crate, their initialiser dependency graph,
//! users, and the scan for shared mutable state.

use std::collections::{BTreeMap, BTreeSet, HashSet};

use syn::{ImplItem, Item};

use crate::gen::HEADER;
use crate::scan::Scan;
use crate::util::*;

/// Files that are not part of the non-test, non-hook crate: `verif.rs` and
/// every `mod x;` declared under #[cfg(test)] / verif-hooks.
fn excluded_files(cr: &Crate) -> HashSet<String> {
    let mut ex: HashSet<String> = HashSet::new();
    ex.insert("verif.rs".to_string());
    fn walk(items: &[Item], dir: &str, ex: &mut HashSet<String>, cr: &Crate) {
        for it in items {
            if let Item::Mod(m) = it {
                let name = m.ident.to_string();
                if m.content.is_none() {
                    if is_excluded(&m.attrs) {
                        let base = if dir.is_empty() {
                            name.clone()
                        } else {
                            format!("{}/{}", dir, name)
                        };
                        let prefix = format!("{}/", base);
                        for k in cr.files.keys() {
                            if *k == format!("{}.rs", base) || k.starts_with(&prefix) {
                                ex.insert(k.clone());
                            }
                        }
                    }
                } else if let Some((_, inner)) = &m.content {
                    if !is_excluded(&m.attrs) {
                        let sub = if dir.is_empty() {
                            name.clone()
                        } else {
                            format!("{}/{}", dir, name)
                        };
                        walk(inner, &sub, ex, cr);
                    }
                }
            }
        }
    }
    for (rel, f) in &cr.files {
        let stem = rel.trim_end_matches(".rs");
        let dir = if stem == "lib" || stem == "main" {
            String::new()
        } else if let Some(d) = stem.strip_suffix("/mod") {
            d.to_string()
        } else {
            stem.to_string()
        };
        walk(&f.ast.items, &dir, &mut ex, cr);
    }
    ex
}

/// A function of the crate: free fn or associated fn of an impl block.
struct FnInfo {
    file: String,
    /// Some(type) for `impl Type { fn .. }` / `impl Trait for Type { fn .. }`
    owner: Option<String>,
    name: String,
    scan: Scan,
}

fn collect_fns(cr: &Crate, ex: &HashSet<String>) -> Vec<FnInfo> {
    let mut v = Vec::new();
    fn walk(items: &[Item], file: &str, v: &mut Vec<FnInfo>) {
        for it in items {
            match it {
                Item::Fn(f) if !is_excluded(&f.attrs) => v.push(FnInfo {
                    file: file.to_string(),
                    owner: None,
                    name: f.sig.ident.to_string(),
                    scan: Scan::of_block(&f.block),
                }),
                Item::Impl(im) if !is_excluded(&im.attrs) => {
                    let owner = type_head(&im.self_ty);
                    for ii in &im.items {
                        if let ImplItem::Fn(f) = ii {
                            if !is_excluded(&f.attrs) {
                                v.push(FnInfo {
                                    file: file.to_string(),
                                    owner: owner.clone().or(Some("?".into())),
                                    name: f.sig.ident.to_string(),
                                    scan: Scan::of_block(&f.block),
                                });
                            }
                        }
                    }
                }
                Item::Mod(m) if !is_excluded(&m.attrs) => {
                    if let Some((_, inner)) = &m.content {
                        walk(inner, file, v);
                    }
                }
                _ => {}
            }
        }
    }
    for (rel, f) in &cr.files {
        if !ex.contains(rel) {
            walk(&f.ast.items, rel, &mut v);
        }
    }
    v
}

fn file_stem(rel: &str) -> &str {
    let s = rel.trim_end_matches(".rs");
    s.rsplit('/').next().unwrap_or(s)
}

/// Indices of the functions a call path may refer to (over-approximation).
fn resolve_call(fns: &[FnInfo], from: usize, path: &[String]) -> Vec<usize> {
    let name = match path.last() {
        Some(n) => n,
        None => return vec![],
    };
    let cands: Vec<usize> = (0..fns.len()).filter(|&i| &fns[i].name == name).collect();
    if cands.is_empty() {
        return cands;
    }
    if path.len() >= 2 {
        let q = &path[path.len() - 2];
        if q == "Self" {
            let owner = fns[from].owner.clone();
            let c: Vec<usize> = cands
                .iter()
                .copied()
                .filter(|&i| fns[i].owner.is_some() && fns[i].owner == owner)
                .collect();
            if !c.is_empty() {
                return c;
            }
            // provided trait method or the like: any associated fn of that name
            return cands.into_iter().filter(|&i| fns[i].owner.is_some()).collect();
        }
        // Type::f
        let c: Vec<usize> = cands
            .iter()
            .copied()
            .filter(|&i| fns[i].owner.as_deref() == Some(q.as_str()))
            .collect();
        if !c.is_empty() {
            return c;
        }
        // module::f
        let c: Vec<usize> = cands
            .iter()
            .copied()
            .filter(|&i| fns[i].owner.is_none() && file_stem(&fns[i].file) == q)
            .collect();
        if !c.is_empty() {
            return c;
        }
        // unknown qualifier (std type, re-export, ..): associated fns of
        // other crate types are not candidates, free fns are
        return cands.into_iter().filter(|&i| fns[i].owner.is_none()).collect();
    }
    // bare name: a free fn of the same file wins
    let c: Vec<usize> = cands
        .iter()
        .copied()
        .filter(|&i| fns[i].owner.is_none() && fns[i].file == fns[from].file)
        .collect();
    if !c.is_empty() {
        return c;
    }
    cands.into_iter().filter(|&i| fns[i].owner.is_none()).collect()
}

/// Statics referenced from fn `start`, transitively through crate fns.
fn reachable_statics(fns: &[FnInfo], start: usize, statics: &BTreeSet<String>) -> BTreeSet<String> {
    let mut seen: HashSet<usize> = HashSet::new();
    let mut work = vec![start];
    let mut out = BTreeSet::new();
    while let Some(i) = work.pop() {
        if !seen.insert(i) {
            continue;
        }
        let s = &fns[i].scan;
        for p in &s.expr_paths {
            if let Some(last) = p.last() {
                if statics.contains(last) {
                    out.insert(last.clone());
                }
            }
        }
        for id in &s.macro_idents {
            if statics.contains(id) {
                out.insert(id.clone());
            }
        }
        for c in &s.calls {
            work.extend(resolve_call(fns, i, c));
        }
        for c in &s.macro_calls {
            work.extend(resolve_call(fns, i, &[c.clone()]));
        }
    }
    out
}

fn is_forbidden_ident(s: &str) -> bool {
    matches!(
        s,
        "Cell" | "RefCell" | "UnsafeCell" | "Mutex" | "RwLock" | "OnceLock" | "OnceCell" | "SyncUnsafeCell"
    ) || (s.starts_with("Atomic") && s.len() > "Atomic".len())
}

pub fn gen_statics(cr: &Crate) -> R<String> {
    let ex = excluded_files(cr);
    let mut out = String::from(HEADER);
    out.push('\n');

    // statics and forbidden constructs, file by file
    let mut statics: Vec<(String, String, String, String)> = Vec::new(); // file, name, head, init
    let mut static_muts: Vec<String> = Vec::new();
    let mut forbidden: Vec<(String, String)> = Vec::new();
    for (rel, f) in &cr.files {
        if ex.contains(rel) {
            continue;
        }
        let s = Scan::of_file(&f.ast);
        for st in &s.statics {
            statics.push((rel.clone(), st.name.clone(), st.type_head.clone(), st.init.clone()));
            if st.is_mut {
                static_muts.push(st.name.clone());
                forbidden.push((rel.clone(), format!("static mut {}", st.name)));
            }
        }
        for m in &s.macros {
            if m.rsplit("::").next() == Some("thread_local") {
                forbidden.push((rel.clone(), "thread_local!".to_string()));
            }
        }
        for t in &s.unsafe_impls {
            if t == "Send" || t == "Sync" {
                forbidden.push((rel.clone(), format!("unsafe impl {}", t)));
            }
        }
        for p in &s.paths {
            for seg in p {
                if is_forbidden_ident(seg) {
                    forbidden.push((rel.clone(), seg.clone()));
                }
            }
        }
        for id in s.use_idents.iter().chain(s.macro_idents.iter()) {
            if is_forbidden_ident(id) {
                forbidden.push((rel.clone(), id.clone()));
            }
            if id == "thread_local" {
                forbidden.push((rel.clone(), "thread_local!".to_string()));
            }
        }
    }

    let items: Vec<String> = statics
        .iter()
        .map(|(_, n, h, i)| format!("({}, {}, {})", coq_str(n), coq_str(h), coq_str(i)))
        .collect();
    out.push_str(&format!(
        "Definition statics : list (string * string * string) :=\n{}.\n\n",
        coq_list_lines(&items)
    ));
    out.push_str(&format!(
        "Definition static_muts : list string := {}.\n\n",
        coq_str_list(&static_muts)
    ));

    // dependency graph
    let fns = collect_fns(cr, &ex);
    let names: BTreeSet<String> = statics.iter().map(|s| s.1.clone()).collect();
    let mut deps = Vec::new();
    for (file, name, _head, init) in &statics {
        if init == "?" {
            continue;
        }
        // the initialiser: a free fn of the static's own file, else any free fn of that name
        let mut idx: Vec<usize> = (0..fns.len())
            .filter(|&i| fns[i].owner.is_none() && &fns[i].name == init && &fns[i].file == file)
            .collect();
        if idx.is_empty() {
            idx = (0..fns.len())
                .filter(|&i| fns[i].owner.is_none() && &fns[i].name == init)
                .collect();
        }
        if idx.is_empty() {
            return unsupported(
                format!("initialiser `{}` of static {} not found in the crate", init, name),
                file,
                init,
            );
        }
        let mut set = BTreeSet::new();
        for i in idx {
            set.extend(reachable_statics(&fns, i, &names));
        }
        let v: Vec<String> = set.into_iter().collect();
        deps.push(format!("({}, {})", coq_str(name), coq_str_list(&v)));
    }
    out.push_str(&format!(
        "Definition deps : list (string * list string) :=\n{}.\n\n",
        coq_list_lines(&deps)
    ));

    // users
    let mut users = Vec::new();
    let ctor_files: BTreeMap<&str, &str> = [
        ("Naive", "engine/engine_naive.rs"),
        ("NoSimd", "engine/engine_nosimd.rs"),
        ("Avx2", "engine/engine_avx2.rs"),
        ("Ssse3", "engine/engine_ssse3.rs"),
        ("Neon", "engine/engine_neon.rs"),
    ]
    .into_iter()
    .collect();
    for eng in ["Naive", "NoSimd", "Avx2", "Ssse3", "Neon"] {
        let file = ctor_files[eng];
        cr.file(file)?;
        let idx: Vec<usize> = (0..fns.len())
            .filter(|&i| fns[i].owner.as_deref() == Some(eng) && fns[i].name == "new" && fns[i].file == file)
            .collect();
        if idx.len() != 1 {
            return unsupported(format!("expected exactly one `{}::new`", eng), file, "new");
        }
        let v: Vec<String> = reachable_statics(&fns, idx[0], &names).into_iter().collect();
        users.push(format!(
            "({}, {})",
            coq_str(&format!("{}::new", eng)),
            coq_str_list(&v)
        ));
    }
    {
        let file = "engine/utils.rs";
        cr.file(file)?;
        let idx: Vec<usize> = (0..fns.len())
            .filter(|&i| fns[i].owner.is_none() && fns[i].name == "eval_poly" && fns[i].file == file)
            .collect();
        if idx.len() != 1 {
            return unsupported("expected exactly one free fn `eval_poly`", file, "eval_poly");
        }
        let v: Vec<String> = reachable_statics(&fns, idx[0], &names).into_iter().collect();
        users.push(format!(
            "({}, {})",
            coq_str("utils::eval_poly"),
            coq_str_list(&v)
        ));
    }
    out.push_str(&format!(
        "Definition users : list (string * list string) :=\n{}.\n\n",
        coq_list_lines(&users)
    ));

    let items: Vec<String> = forbidden
        .iter()
        .map(|(f, c)| format!("({}, {})", coq_str(f), coq_str(c)))
        .collect();
    out.push_str(&format!(
        "Definition forbidden : list (string * string) :=\n{}.\n",
        coq_list_lines(&items)
    ));
    Ok(out)
}
