(* C05: the outputs of a round do not depend on working memory that was not written in the
   round (the [junk] parameter of the machine).  Decode: every position that was not received
   is overwritten with zero before anything reads it. *)
From Coq Require Import NArith Arith Lia Bool List FMapPositive.
From RS.Gen Require Import Prelude GenConsts.
From RS.Model Require Import Field Tables Sched Codec Layout Machine.
From RS.Proofs Require Import PermFacts RateFacts.
Import ListNotations.
Local Open Scope N_scope.

Section J.
Context {T : Type} (ops : elt_ops T).

(* two work vectors (starting at position k) that agree wherever a shard was received *)
Fixpoint agree_from (recv : N -> bool) (k : N) (l l' : list T) : Prop :=
  match l, l' with
  | [], [] => True
  | x :: l, y :: l' => (recv k = true -> x = y) /\ agree_from recv (k + 1) l l'
  | _, _ => False
  end.

Lemma agree_length recv : forall l l' k, agree_from recv k l l' -> length l = length l'.
Proof. induction l as [|x l IH]; intros [|y l'] k H; cbn in *; try tauto. destruct H as [_ H]. f_equal. eapply IH, H. Qed.

Lemma mapi_from_agree (f : N -> N -> T -> T) (recv : N -> bool) :
  (forall i ei x y, recv i = false -> f i ei x = f i ei y) ->
  forall l l' k er, agree_from recv k l l' ->
  map (fun p => f (fst (fst p)) (snd (fst p)) (snd p)) (combine (combine (rangeN k (length l)) er) l) =
  map (fun p => f (fst (fst p)) (snd (fst p)) (snd p)) (combine (combine (rangeN k (length l')) er) l').
Proof.
  intros Hf. induction l as [|x l IH]; intros [|y l'] k er H; cbn in H; try tauto; try reflexivity.
  destruct H as [Hxy H]. cbn [length rangeN]. destruct er as [|ei er]; [reflexivity|].
  cbn [combine map fst snd]. f_equal.
  - destruct (recv k) eqn:E; [rewrite (Hxy eq_refl); reflexivity|apply Hf, E].
  - apply IH, H.
Qed.

Lemma mapi_agree (f : N -> N -> T -> T) (recv : N -> bool) er l l' :
  (forall i ei x y, recv i = false -> f i ei x = f i ei y) ->
  agree_from recv 0 l l' -> mapi f er l = mapi f er l'.
Proof.
  intros Hf H. unfold mapi, range. rewrite !N.sub_0_r, !Nat2N.id. apply (mapi_from_agree f recv Hf); assumption.
Qed.

Theorem decode_high_junk e K R recv w w' : agree_from recv 0 w w' ->
  decode_high_work ops e K R recv w = decode_high_work ops e K R recv w'.
Proof.
  intros H. unfold decode_high_work. rewrite (agree_length _ _ _ _ H).
  f_equal. f_equal. f_equal. apply (mapi_agree _ recv); [|exact H].
  intros i ei x y Hr. unfold mul_or_zero. rewrite Hr. reflexivity.
Qed.
Theorem decode_low_junk e K R recv w w' : agree_from recv 0 w w' ->
  decode_low_work ops e K R recv w = decode_low_work ops e K R recv w'.
Proof.
  intros H. unfold decode_low_work. rewrite (agree_length _ _ _ _ H).
  f_equal. f_equal. f_equal. apply (mapi_agree _ recv); [|exact H].
  intros i ei x y Hr. unfold mul_or_zero. rewrite Hr. reflexivity.
Qed.
End J.

(* ---------- the machine: received positions hold their inserted shard ---------- *)
Definition dec_inv (w : decwork) : Prop :=
  forall p, pmem (dw_received w) p = true -> mget (dw_mem w) p <> None.

Lemma mget_mset m p q v : mget (mset m p v) q = if q =? p then Some v else mget m q.
Proof.
  unfold mget, mset. destruct (N.eqb_spec q p) as [->|Hne].
  - apply PositiveMap.gss.
  - apply PositiveMap.gso. intros E. apply succ_pos_inj in E. congruence.
Qed.
Lemma dec_inv_insert w pos s b : dec_inv w -> dec_inv (dw_insert w pos s b).
Proof.
  intros H p. unfold dw_insert. cbn. rewrite pmem_padd, mget_mset.
  destruct (p =? pos); [discriminate|]. cbn [orb]. apply H.
Qed.
Lemma dec_inv_empty w : dw_received w = pempty -> dec_inv w.
Proof. intros E p. rewrite E. unfold pmem, pempty. rewrite PositiveMap.gempty. discriminate. Qed.

Section M.
Variables junk1 junk2 : N -> N -> N -> N.

Lemma work_list_agree ep1 ep2 w lanes : dec_inv w ->
  agree_from (pmem (dw_received w)) 0 (work_list junk1 ep1 (dw_mem w) (dw_wc w) lanes)
                                      (work_list junk2 ep2 (dw_mem w) (dw_wc w) lanes).
Proof.
  intros Hinv. unfold work_list, range. rewrite N.sub_0_r. generalize (N.to_nat (dw_wc w)) as n. generalize 0 as k.
  intros k n. revert k. induction n as [|n IH]; intros k; cbn; [exact I|]. split; [|apply IH].
  intros Hr. specialize (Hinv k Hr). destruct (mget (dw_mem w) k); [reflexivity|congruence].
Qed.

(* decode output is the same under any two stale memories *)
Theorem decode_work_junk ep1 ep2 x : dec_inv (d_work x) ->
  decode_work junk1 ep1 x = decode_work junk2 ep2 x.
Proof.
  intros Hinv. unfold decode_work. f_equal.
  pose proof (work_list_agree ep1 ep2 (d_work x) (lanes_of (dw_sb (d_work x))) Hinv) as Ha.
  destruct (d_rate x); [apply decode_high_junk|apply decode_low_junk]; exact Ha.
Qed.
Theorem dec_decode_junk ep1 ep2 x probes : dec_inv (d_work x) ->
  dec_decode junk1 ep1 x probes = dec_decode junk2 ep2 x probes.
Proof.
  intros Hinv. unfold dec_decode. rewrite (decode_work_junk ep1 ep2 x Hinv). reflexivity.
Qed.
End M.

(* the invariant holds in every decoder the machine can produce *)
Lemma dec_make_inv c e K R sb w x a : dec_make c e K R sb w = inl (x, a) -> dec_inv (d_work x).
Proof.
  unfold dec_make. destruct (validateb c K R sb); [discriminate|]. cbn. intros [= <- _]. apply dec_inv_empty. reflexivity.
Qed.
Lemma dec_add_original_inv x i s x' : dec_inv (d_work x) -> dec_add_original x i s = inl x' -> dec_inv (d_work x').
Proof.
  intros H. unfold dec_add_original. destruct (_ <=? _); [discriminate|]. destruct (pmem _ _); [discriminate|].
  destruct (negb _); [discriminate|]. intros [= <-]. cbn. apply dec_inv_insert, H.
Qed.
Lemma dec_add_recovery_inv x i s x' : dec_inv (d_work x) -> dec_add_recovery x i s = inl x' -> dec_inv (d_work x').
Proof.
  intros H. unfold dec_add_recovery. destruct (_ <=? _); [discriminate|]. destruct (pmem _ _); [discriminate|].
  destruct (negb _); [discriminate|]. intros [= <-]. cbn. apply dec_inv_insert, H.
Qed.
Lemma dec_after_round_inv x : dec_inv (d_work (dec_after_round x)).
Proof. apply dec_inv_empty. reflexivity. Qed.

(* ---------- encode: only the first original_count positions are read ---------- *)
Section JE.
Context {T : Type} (ops : elt_ops T).
Variable e : engine.

Definition same_prefix (K : nat) (w w' : list T) : Prop := length w = length w' /\ firstn K w = firstn K w'.

Lemma firstn_firstn_min {A} a b (l : list A) : firstn a (firstn b l) = firstn (Nat.min a b) l.
Proof. apply firstn_firstn. Qed.

Lemma prefix_sub K w w' a b : same_prefix K w w' -> (a + b <= K)%nat ->
  firstn a (skipn b w) = firstn a (skipn b w').
Proof.
  intros [Hl Hp] Hab.
  assert (E : forall l : list T, firstn a (skipn b l) = skipn b (firstn (a + b) l)).
  { intros l. rewrite skipn_firstn_comm. f_equal. lia. }
  rewrite !E. f_equal.
  replace (a + b)%nat with (Nat.min (a + b) K) by lia.
  rewrite <- !firstn_firstn_min. rewrite Hp. reflexivity.
Qed.

Lemma zero_tail_agree keep (c c' : list T) : length c = length c' -> firstn keep c = firstn keep c' ->
  zero_tail ops keep c = zero_tail ops keep c'.
Proof. intros Hl Hf. unfold zero_tail. rewrite Hl, Hf. reflexivity. Qed.

Lemma skipn_skipn' {A} a b (l : list A) : skipn a (skipn b l) = skipn (b + a) l.
Proof. revert l. induction b as [|b IH]; intros l; [reflexivity|]. destruct l; [destruct a; reflexivity|]. cbn. apply IH. Qed.

Lemma hec_agree (Kn : nat) K m (w w' : list T) : same_prefix Kn w w' -> Kn = N.to_nat K -> 0 < m ->
  forall f cs acc, cs <= K -> (exists j, cs = j * m) ->
  high_enc_chunks ops e K m cs acc (chunks f (N.to_nat m) (skipn (N.to_nat cs) w)) =
  high_enc_chunks ops e K m cs acc (chunks f (N.to_nat m) (skipn (N.to_nat cs) w')).
Proof.
  intros Hp HK Hm. induction f as [|f IH]; intros cs acc Hcs Hj; [reflexivity|].
  cbn [chunks]. pose proof Hp as [Hl _].
  assert (Hls : length (skipn (N.to_nat cs) w) = length (skipn (N.to_nat cs) w')) by (rewrite !skipn_length; lia).
  destruct (skipn (N.to_nat cs) w) as [|x l] eqn:E1; destruct (skipn (N.to_nat cs) w') as [|y l'] eqn:E2; try discriminate; [reflexivity|].
  rewrite <- E1, <- E2. cbn [high_enc_chunks].
  destruct (N.leb_spec (cs + m) K) as [Hfull|Hpart].
  - rewrite (prefix_sub Kn w w' (N.to_nat m) (N.to_nat cs) Hp ltac:(lia)).
    rewrite !skipn_skipn'. replace (N.to_nat cs + N.to_nat m)%nat with (N.to_nat (cs + m)) by lia.
    apply IH; [lia|]. destruct Hj as [j ->]. exists (j + 1). lia.
  - destruct (0 <? K mod m) eqn:El; [|reflexivity]. f_equal. f_equal.
    apply zero_tail_agree; [rewrite !firstn_length, !skipn_length; lia|].
    rewrite !firstn_firstn_min.
    pose proof (N.mod_upper_bound K m ltac:(lia)) as Hmod.
    replace (Nat.min (N.to_nat (K mod m)) (N.to_nat m)) with (N.to_nat (K mod m)) by lia.
    apply (prefix_sub Kn w w' _ _ Hp).
    destruct Hj as [j ->]. pose proof (N.div_mod K m ltac:(lia)) as Hdm.
    assert (j <= K / m) by (apply N.div_le_lower_bound; lia).
    assert (j * m <= m * (K / m)) by nia. lia.
Qed.

Theorem encode_high_prefix K R w w' : same_prefix (N.to_nat K) w w' ->
  encode_high ops e K R w = encode_high ops e K R w'.
Proof.
  intros Hp. pose proof Hp as [Hl Hf]. unfold encode_high. rewrite <- Hl.
  set (m := np2 R).
  assert (Hm : 0 < m).
  { unfold m, np2. pose proof (npow2_ge R). destruct (N.eq_dec R 0) as [->|]; [cbn; lia|lia]. }
  destruct (length w) as [|n] eqn:En.
  - destruct w; [|discriminate]. destruct w'; [|discriminate]. reflexivity.
  - cbn [chunks]. destruct w as [|x w0]; [discriminate|]. destruct w' as [|y w0']; [discriminate|].
    set (W := x :: w0) in *. set (W' := y :: w0') in *.
    assert (E0 : zero_tail ops (N.to_nat (N.min K m)) (firstn (N.to_nat m) W) = zero_tail ops (N.to_nat (N.min K m)) (firstn (N.to_nat m) W')).
    { apply zero_tail_agree; [rewrite !firstn_length; lia|]. rewrite !firstn_firstn_min.
      replace (Nat.min (N.to_nat (N.min K m)) (N.to_nat m)) with (N.to_nat (N.min K m)) by lia.
      apply (prefix_sub (N.to_nat K) W W' _ 0%nat Hp). lia. }
    rewrite E0. destruct (m <? K) eqn:Emk; [|reflexivity]. apply N.ltb_lt in Emk.
    f_equal. f_equal.
    replace (skipn (N.to_nat m) W) with (skipn (N.to_nat m) W) by reflexivity.
    apply (hec_agree (N.to_nat K) K m W W' Hp eq_refl Hm n m); [lia|exists 1; lia].
Qed.

Theorem encode_low_prefix K R w w' : same_prefix (N.to_nat K) w w' ->
  encode_low ops e K R w = encode_low ops e K R w'.
Proof.
  intros Hp. pose proof Hp as [Hl Hf]. unfold encode_low. f_equal. f_equal. f_equal.
  apply zero_tail_agree; [rewrite !firstn_length; lia|]. rewrite !firstn_firstn_min.
  pose proof (npow2_ge K). unfold np2.
  replace (Nat.min (N.to_nat K) (N.to_nat (npow2 K))) with (N.to_nat K) by lia. exact Hf.
Qed.
End JE.

(* ---------- the machine: encoder ---------- *)
Definition enc_inv (w : encwork) : Prop :=
  forall p, p < ew_recv w -> mget (ew_mem w) p <> None.

Lemma firstn_rangeN_lt n : forall a k p, In p (firstn k (rangeN a n)) -> p < a + N.of_nat k.
Proof.
  induction n as [|n IH]; intros a k p H; [destruct k; destruct H|].
  destruct k as [|k]; [destruct H|]. cbn in H. destruct H as [<-|H]; [lia|]. apply IH in H. lia.
Qed.

Section ME.
Variables junk1 junk2 : N -> N -> N -> N.

Lemma work_list_prefix ep1 ep2 (w : encwork) lanes : enc_inv w ->
  same_prefix (N.to_nat (ew_recv w)) (work_list junk1 ep1 (ew_mem w) (ew_wc w) lanes)
                                     (work_list junk2 ep2 (ew_mem w) (ew_wc w) lanes).
Proof.
  intros Hinv. unfold work_list, same_prefix. split; [rewrite !map_length; reflexivity|].
  rewrite !firstn_map. apply map_ext_in. intros p Hp. unfold range in Hp. apply firstn_rangeN_lt in Hp.
  specialize (Hinv p ltac:(lia)). destruct (mget (ew_mem w) p); [reflexivity|congruence].
Qed.

(* encode output is the same under any two stale memories *)
Theorem encode_shards_junk ep1 ep2 x : enc_inv (e_work x) -> ew_recv (e_work x) = ew_K (e_work x) ->
  encode_shards junk1 ep1 x = encode_shards junk2 ep2 x.
Proof.
  intros Hinv Hr. unfold encode_shards. f_equal.
  pose proof (work_list_prefix ep1 ep2 (e_work x) (lanes_of (ew_sb (e_work x))) Hinv) as Hp. rewrite Hr in Hp.
  destruct (e_rate x); [apply encode_high_prefix|apply encode_low_prefix]; exact Hp.
Qed.
Theorem enc_encode_junk ep1 ep2 x probes : enc_inv (e_work x) ->
  enc_encode junk1 ep1 x probes = enc_encode junk2 ep2 x probes.
Proof.
  intros Hinv. unfold enc_encode. destruct (ew_recv (e_work x) =? ew_K (e_work x)) eqn:E; cbn [negb]; [|reflexivity].
  apply N.eqb_eq in E. rewrite (encode_shards_junk ep1 ep2 x Hinv E). reflexivity.
Qed.
End ME.

Lemma enc_make_inv c e K R sb w x a : enc_make c e K R sb w = inl (x, a) -> enc_inv (e_work x).
Proof.
  unfold enc_make. destruct (validateb c K R sb); [discriminate|]. cbn. intros [= <- _]. intros p Hp. cbn in Hp. lia.
Qed.
Lemma enc_add_inv x s x' : enc_inv (e_work x) -> enc_add x s = inl x' -> enc_inv (e_work x').
Proof.
  intros H. unfold enc_add. destruct (_ =? _); [discriminate|]. destruct (negb _); [discriminate|].
  intros [= <-]. intros p Hp. cbn in *. rewrite mget_mset. destruct (N.eqb_spec p (ew_recv (e_work x))); [discriminate|].
  apply H. lia.
Qed.
Lemma enc_after_round_inv x : enc_inv (e_work (enc_after_round x)).
Proof. intros p Hp. cbn in Hp. lia. Qed.

(* ---------- every reachable state satisfies the invariants; results do not depend on junk ---------- *)
Definition Inv (s : state) : Prop :=
  match s_enc s with Some x => enc_inv (e_work x) | None => True end /\
  match s_dec s with Some x => dec_inv (d_work x) | None => True end.

Lemma Inv_init : Inv init.
Proof. split; exact I. Qed.

Definition uses_oneshot (o : op) : bool := match o with OneEnc _ _ _ | OneDec _ _ _ _ => true | _ => false end.

Theorem step_junk junk1 junk2 s o : Inv s -> uses_oneshot o = false -> step junk1 s o = step junk2 s o.
Proof.
  intros [Ie Id] Ho. unfold step. destruct o; try discriminate Ho; try reflexivity; cbn [noalloc s_enc s_dec s_epoch].
  - destruct (s_enc s) as [x|]; [|reflexivity]. rewrite (enc_encode_junk junk1 junk2 (s_epoch s) (s_epoch s) x probes Ie). reflexivity.
  - destruct (s_dec s) as [x|]; [|reflexivity]. rewrite (dec_decode_junk junk1 junk2 (s_epoch s) (s_epoch s) x probes Id). reflexivity.
Qed.

Theorem step_Inv junk s o : Inv s -> Inv (fst (step junk s o)).
Proof.
  destruct s as [se sd sew sdw ep al]. unfold Inv. cbn [s_enc s_dec]. intros [Ie Id].
  unfold step. cbn [noalloc s_enc s_dec s_encwork s_decwork s_epoch].
  destruct o.
  - destruct (enc_make _ _ _ _ _ _) as [[x a]|] eqn:E; cbn; (split; [first [solve [eapply enc_make_inv; eauto] | assumption]|assumption]).
  - destruct c; cbn;
      match goal with |- context [enc_make ?c ?e ?K ?R ?sb ?w] => destruct (enc_make c e K R sb w) as [[x a]|] eqn:E end;
      cbn; (split; [first [solve [eapply enc_make_inv; eauto] | assumption]|assumption]).
  - destruct se; cbn; split; auto.
  - destruct se as [x|]; [|cbn; split; auto].
    destruct (enc_make _ _ _ _ _ _) as [[x' a]|] eqn:E; cbn; (split; [first [solve [eapply enc_make_inv; eauto] | assumption]|assumption]).
  - destruct se as [x|]; [|cbn; split; auto].
    destruct (enc_add x shard) as [x'|] eqn:E; cbn; (split; [first [solve [eapply enc_add_inv; eauto] | assumption]|assumption]).
  - destruct se as [x|]; [|cbn; split; auto]. unfold enc_encode.
    destruct (negb _); cbn; [split; assumption|]. split; [apply enc_after_round_inv|exact Id].
  - destruct (dec_make _ _ _ _ _ _) as [[x a]|] eqn:E; cbn; (split; [assumption|first [solve [eapply dec_make_inv; eauto] | assumption]]).
  - destruct c; cbn;
      match goal with |- context [dec_make ?c ?e ?K ?R ?sb ?w] => destruct (dec_make c e K R sb w) as [[x a]|] eqn:E end;
      cbn; (split; [assumption|first [solve [eapply dec_make_inv; eauto] | assumption]]).
  - destruct sd; cbn; split; auto.
  - destruct sd as [x|]; [|cbn; split; auto].
    destruct (dec_make _ _ _ _ _ _) as [[x' a]|] eqn:E; cbn; (split; [assumption|first [solve [eapply dec_make_inv; eauto] | assumption]]).
  - destruct sd as [x|]; [|cbn; split; auto].
    destruct (dec_add_original x idx shard) as [x'|] eqn:E; cbn; (split; [assumption|first [solve [eapply dec_add_original_inv; eauto] | assumption]]).
  - destruct sd as [x|]; [|cbn; split; auto].
    destruct (dec_add_recovery x idx shard) as [x'|] eqn:E; cbn; (split; [assumption|first [solve [eapply dec_add_recovery_inv; eauto] | assumption]]).
  - destruct sd as [x|]; [|cbn; split; auto]. unfold dec_decode.
    destruct (_ <? _); cbn; [split; assumption|]. destruct (_ =? _); cbn; (split; [exact Ie|apply dec_after_round_inv]).
  - cbn. split; assumption.
  - cbn. split; assumption.
  - destruct (oneshot_encode _ _ _ _ _); cbn; split; assumption.
  - destruct (oneshot_decode _ _ _ _ _ _); cbn; split; assumption.
Qed.

(* C05: along any sequence of streaming-API calls from a fresh state, every result is the same
   whatever the stale contents of the working memory are *)
Theorem run_junk junk1 junk2 ops : forallb (fun o => negb (uses_oneshot o)) ops = true ->
  forall s, Inv s -> run junk1 s ops = run junk2 s ops.
Proof.
  intros Hops s Hs. unfold run.
  assert (G : forall acc s, Inv s ->
     fold_left (fun '(s, acc) o => let '(s', r) := step junk1 s o in (s', acc ++ [r])) ops (s, acc) =
     fold_left (fun '(s, acc) o => let '(s', r) := step junk2 s o in (s', acc ++ [r])) ops (s, acc)).
  { clear s Hs. induction ops as [|o ops IH]; intros acc s Hs; [reflexivity|].
    cbn [forallb] in Hops. apply andb_prop in Hops. destruct Hops as [Ho Hops]. apply negb_true_iff in Ho.
    cbn [fold_left]. rewrite (step_junk junk1 junk2 s o Hs Ho).
    destruct (step junk2 s o) as [s' r] eqn:E. apply (IH Hops).
    pose proof (step_Inv junk2 s o Hs) as Hi. rewrite E in Hi. exact Hi. }
  apply G, Hs.
Qed.
