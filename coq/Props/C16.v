(* C16 — independent codec objects can be used concurrently.
   The logic that is modelled: the lazily initialised global tables form a dependency graph
   (Gen/GenStatics.v, regenerated from src/engine/tables.rs on every run); the crate has no
   other shared mutable state (syntactic scan, also regenerated).  Partial: std::sync::LazyLock,
   the Rust memory model and the hardware are trusted to implement the once-cell semantics;
   thread interleavings of the real code are explored by the stress runs of the check. *)
From Coq Require Import NArith Arith Bool List String.
From RS.Gen Require Import Prelude GenStatics.
From RS.Model Require Import Lazy.
From RS.Proofs Require Import LazyFacts.
Import ListNotations.
Local Open Scope string_scope.

(* every global is a LazyLock with a named initialiser; there is no `static mut`, no
   thread_local!, no unsafe impl Send/Sync, no interior mutability outside LazyLock *)
Theorem C16_statics :
  forallb (fun s => let '(_, kind, init) := s in String.eqb kind "LazyLock" && negb (String.eqb init "?")) statics = true /\
  static_muts = [] /\ forbidden = [] /\ map (fun s => fst (fst s)) statics = names deps.
Proof. vm_compute. repeat split. Qed.
Print Assumptions C16_statics.

(* the initialiser dependency graph is closed and acyclic, with an explicit rank function
   (every dependency has strictly smaller rank) *)
Theorem C16_acyclic : closedb deps = true /\ acyclicb deps = true /\ ranked deps = true.
Proof. vm_compute. repeat split. Qed.
Print Assumptions C16_acyclic.

(* what engine constructors and eval_poly force is a subset of the declared statics *)
Theorem C16_users : forallb (fun u => forallb (fun x => existsb (String.eqb x) (names deps)) (snd u)) users = true.
Proof. vm_compute. reflexivity. Qed.
Print Assumptions C16_users.

(* ---- the unbounded theorems: any number of threads, any wants, any schedule ---- *)
Lemma deps_ranked : forall c x, In x (deps_of deps c) -> (rank deps x < rank deps c)%nat.
Proof.
  intros c x Hx. unfold deps_of in Hx. destruct (find (fun p => String.eqb (fst p) c) deps) as [p|] eqn:Ef; [|destruct Hx].
  apply find_some in Ef. destruct Ef as [Hp Hc]. apply String.eqb_eq in Hc. subst c.
  assert (H : ranked deps = true) by (vm_compute; reflexivity).
  unfold ranked in H. rewrite forallb_forall in H. specialize (H p Hp). rewrite forallb_forall in H.
  specialize (H x Hx). apply Nat.ltb_lt in H. exact H.
Qed.

(* every state reachable under any schedule satisfies the machine invariant (a cell is Running t
   exactly when it is on thread t's initialiser stack; stacks are dependency chains), every
   initialiser has completed at most once, and completed cells stay initialised *)
Theorem C16_once : forall wants sched,
  let m := mrun deps (minit wants) sched in
  Inv deps m /\ (forall c, In c (inits m) -> tbl m c = Done) /\ NoDup (inits m).
Proof. exact (run_invariants deps). Qed.
Print Assumptions C16_once.

(* no schedule deadlocks: in every reachable state in which some thread has not finished,
   some thread can take a step (a thread never waits for itself, and the waits-for relation
   follows the strict dependency order) *)
Theorem C16_progress : forall wants sched,
  let m := mrun deps (minit wants) sched in
  finished m = false -> exists t m', mstep deps m t = Some m'.
Proof.
  intros wants sched m Hf. apply (progress deps (rank deps) deps_ranked); [|exact Hf].
  apply (run_invariants deps).
Qed.
Print Assumptions C16_progress.

(* bounded exploration inside Coq (not the unbounded claim): for three threads that force
   the tables in the orders of Naive::new, NoSimd::new+decode and Avx2::new, every schedule
   given by a rotation/interleaving pattern below terminates with every initialiser run
   exactly once and all wanted tables initialised *)
Definition wants3 := [["EXP_LOG"; "SKEW"]; ["MUL16"; "SKEW"; "LOG_WALSH"]; ["MUL128"; "SKEW"; "LOG_WALSH"]].
Definition scheds : list (list nat) :=
  let base := [[0;1;2]; [2;1;0]; [1;0;2]; [0;0;1;1;2;2]; [2;2;2;0;1]; [1;2;0;0;0]] in
  map (fun b => List.concat (List.repeat b 12)) base.
Definition good_final (m : mstate) : bool :=
  finished m && forallb (fun c => is_done (tbl m) c) (names deps) &&
  Nat.eqb (List.length (inits m)) (List.length deps) &&
  forallb (fun c => Nat.eqb (count_occ string_dec (inits m) c) 1) (names deps).
Theorem C16_bounded_schedules : forallb (fun s => good_final (mrun deps (minit wants3) s)) scheds = true.
Proof. vm_compute. reflexivity. Qed.
Print Assumptions C16_bounded_schedules.
