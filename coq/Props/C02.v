(* C02 — recovery shards are one fixed scaled-Cauchy Reed-Solomon code over GF(2^16). *)
From Coq Require Import NArith Bool List Lia.
From RS.Gen Require Import Prelude GenConsts.
From RS.Model Require Import Field Tables Sched Codec Spec.
From RS.Model Require Import Layout Machine.
From RS.Proofs Require Import FieldFacts Ring FftSpec Lagrange Cauchy MachineOps MachineEnc.
Import ListNotations.
Local Open Scope N_scope.

(* the constants the property names, as regenerated from src/engine.rs *)
Theorem C02_consts :
  GF_POLYNOMIAL = 0x1002D /\ GF_ORDER = 65536 /\ GF_MODULUS = 65535 /\ GF_BITS = 16 /\
  CANTOR_BASIS = [0x0001; 0xACCA; 0x3C0E; 0x163E; 0xC582; 0xED2E; 0x914C; 0x4012;
                  0x6C98; 0x10D8; 0x6A72; 0xB900; 0xFDB8; 0xFB34; 0xFF38; 0x991E].
Proof. repeat split. Qed.
Print Assumptions C02_consts.

(* the Cantor relations of the basis under the field polynomial: beta_0 = 1 and
   beta_i^2 + beta_i = beta_(i-1), in polynomial-basis arithmetic (mulx = times x mod P) *)
Fixpoint pmul_fuel (n : nat) (a b : N) : N :=
  match n with O => 0 | S k => N.lxor (if N.odd b then a else 0) (pmul_fuel k (mulx a) (N.div2 b)) end.
Definition pmul16 := pmul_fuel 16.
Theorem C02_cantor_relations :
  nth 0 CANTOR_BASIS 0 = 1 /\
  forallb (fun i => N.lxor (pmul16 (nth (S i) CANTOR_BASIS 0) (nth (S i) CANTOR_BASIS 0)) (nth (S i) CANTOR_BASIS 0)
                    =? nth i CANTOR_BASIS 0) (seq 0 15) = true.
Proof. vm_compute. split; reflexivity. Qed.
Print Assumptions C02_cantor_relations.

(* the model's table-based multiplication is carry-less multiplication modulo the field
   polynomial transported through the Cantor basis: phi (a * b) = pmul (phi a) (phi b);
   checked on all pairs of basis elements and on the generator's powers
   (the algebraic lifting to all pairs is FieldFacts, in progress) *)
Theorem C02_field_basis :
  forallb (fun i => forallb (fun j => phi (fmul (2 ^ i) (2 ^ j)) =? pmul16 (phi (2 ^ i)) (phi (2 ^ j))) (range 0 16)) (range 0 16) = true.
Proof. vm_compute. reflexivity. Qed.
Print Assumptions C02_field_basis.

(* ---------- closed form = algorithm: the general theorems ---------- *)
(* For EVERY configuration of the envelope, every engine schedule, every input and whatever
   junk the unused work positions hold, symbol j of the encoder output is row j of the scaled
   Cauchy matrix of Spec.v applied to the originals.  Spec.recovery_*_spec uses field
   operations only (fmul/fdiv: Ring.fmul_spec ties them to 0x1002D and the Cantor basis).
   Proof: ifft interpolates (FftTrunc), fft evaluates (FftSpec + Trunc), Lagrange interpolation
   over subspace cosets (Lagrange.lagrange), W_m = 1 in the Cantor basis. *)
Theorem C02_high : forall e K R w, 1 <= K -> 1 <= R -> npow2 R + K <= 65536 ->
  Forall (fun x => x < 65536) w -> length w = N.to_nat (high_enc_work_count K R) ->
  forall j, N.of_nat j < R ->
  nth j (encode_high sym_ops e K R w) 0 = recovery_high_spec K R (firstn (N.to_nat K) w) (N.of_nat j).
Proof. exact encode_high_cauchy. Qed.
Print Assumptions C02_high.

Theorem C02_low : forall e K R w, 1 <= K -> 1 <= R -> npow2 K + R <= 65536 ->
  Forall (fun x => x < 65536) w -> (N.to_nat (npow2 K) <= length w)%nat ->
  forall j, N.of_nat j < R ->
  nth j (encode_low sym_ops e K R w) 0 = recovery_low_spec K R (firstn (N.to_nat K) w) (N.of_nat j).
Proof. exact encode_low_cauchy. Qed.
Print Assumptions C02_low.

(* ... and for whole shards: every 16-bit slot l of every recovery shard j *)
Theorem C02_high_shards : forall lanes e K R (w : list (list N)), 1 <= K -> 1 <= R -> npow2 R + K <= 65536 ->
  Forall (fun s => length s = lanes) w -> Forall (Forall (fun x => x < 65536)) w ->
  length w = N.to_nat (high_enc_work_count K R) ->
  forall j l, N.of_nat j < R -> (l < lanes)%nat ->
  nth l (nth j (encode_high (shard_ops lanes) e K R w) []) 0 =
  recovery_high_spec K R (map (fun s => nth l s 0) (firstn (N.to_nat K) w)) (N.of_nat j).
Proof. exact encode_high_cauchy_shards. Qed.
Print Assumptions C02_high_shards.
Theorem C02_low_shards : forall lanes e K R (w : list (list N)), 1 <= K -> 1 <= R -> npow2 K + R <= 65536 ->
  Forall (fun s => length s = lanes) w -> Forall (Forall (fun x => x < 65536)) w ->
  (N.to_nat (npow2 K) <= length w)%nat ->
  forall j l, N.of_nat j < R -> (l < lanes)%nat ->
  nth l (nth j (encode_low (shard_ops lanes) e K R w) []) 0 =
  recovery_low_spec K R (map (fun s => nth l s 0) (firstn (N.to_nat K) w)) (N.of_nat j).
Proof. exact encode_low_cauchy_shards. Qed.
Print Assumptions C02_low_shards.

(* ... and through the streaming API of the machine: for any codec, engine, valid configuration and
   shard size, any recycled working space and stale memory, after enc_make and adding the originals,
   16-bit slot l of recovery shard j (bytes as returned) is row j of the closed-form matrix of
   the codec's rate applied to slot l of the originals *)
Theorem C02_api : forall junk, (forall a b c, junk a b c < 65536) ->
  forall c ee K R sb ep originals, validateb c K R sb = None ->
  N.of_nat (length originals) = K -> Forall (byteshard sb) originals ->
  forall w0 x0 x a0, enc_make c ee K R sb w0 = inl (x0, a0) -> enc_add_all x0 originals = inl x ->
  forall j l, j < R -> (l < N.to_nat (lanes_of sb))%nat ->
  nth l (syms_of_bytes (nth (N.to_nat j) (encode_shards junk ep x) [])) 0 =
  match rate_of c K R with
  | High => recovery_high_spec K R (slot originals l) j
  | Low => recovery_low_spec K R (slot originals l) j
  end.
Proof. intros. eapply ops_encode_cauchy; eassumption. Qed.
Print Assumptions C02_api.

(* the interpolation theorem behind them *)
Theorem C02_lagrange : forall k, (k <= 15)%nat -> forall c u x, length c = Nat.pow 2 k ->
  Forall (fun x => x < 65536) c -> u < 65536 -> x < 65536 -> N.shiftr (N.lxor x u) (N.of_nat k) <> 0 ->
  lch k c x = xsum (Nat.pow 2 k) (fun v => fmul (lch k c (N.lxor u (N.of_nat v)))
                                               (fdiv (s_poly k (N.lxor x u)) (N.lxor (N.lxor x u) (N.of_nat v)))).
Proof. exact lagrange. Qed.
Print Assumptions C02_lagrange.

(* closed form = algorithm, for every configuration with K, R <= 6, both rates, both
   schedules, on a fixed data vector (instances, kept as non-vacuity checks of the theorems above) *)
Definition data (K : N) : list N := map (fun i => (i * 40503 + 977) mod 65536) (range 0 K).
Definition high_ok (e : engine) (K R : N) : bool :=
  if list_eq_dec N.eq_dec
       (encode_high sym_ops e K R (data K ++ repeat 12345 (N.to_nat (high_enc_work_count K R - K))))
       (map (recovery_high_spec K R (data K)) (range 0 R)) then true else false.
Definition low_ok (e : engine) (K R : N) : bool :=
  if list_eq_dec N.eq_dec
       (encode_low sym_ops e K R (data K ++ repeat 12345 (N.to_nat (N.max (np2 K) (low_enc_work_count K R) - K))))
       (map (recovery_low_spec K R (data K)) (range 0 R)) then true else false.
Theorem C02_instances :
  forallb (fun e => forallb (fun K => forallb (fun R => high_ok e K R && low_ok e K R) (range 1 7)) (range 1 7))
          [Naive; NoSimd] = true.
Proof. vm_compute. reflexivity. Qed.
Print Assumptions C02_instances.

Theorem C02_instances_larger :
  high_ok NoSimd 100 37 && low_ok NoSimd 37 100 && high_ok Naive 33 32 && low_ok Naive 64 65 = true.
Proof. vm_compute. reflexivity. Qed.
Print Assumptions C02_instances_larger.
