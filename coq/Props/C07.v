(* C07 — a failed call changes nothing and leaves the object usable. *)
From Coq Require Import NArith Bool List.
From RS.Gen Require Import Prelude GenConsts.
From RS.Model Require Import Field Sched Codec Machine Admissible.
From RS.Proofs Require Import MachineFacts.
Import ListNotations.
Local Open Scope N_scope.

(* After any call returns Err the encoder and the decoder objects are exactly what they
   were (same configuration, same rate, same received shards and counters); the state is
   the old state (up to the allocation flag of the previous call, which no call reads).
   The only exception is new(.., Some(work)): the work that was moved into the failed
   constructor is gone (as in Rust), the objects are untouched. *)
Theorem C07_step : forall junk s o s' e,
  step junk s o = (s', RError e) ->
  s_enc s' = s_enc s /\ s_dec s' = s_dec s /\ s_epoch s' = s_epoch s /\
  (is_neww o = false -> s' = noalloc s).
Proof. exact step_err_state. Qed.
Print Assumptions C07_step.

(* ... hence every continuation gives the same results as if the failed call had not been made *)
Theorem C07_cont : forall junk s o s' e ops,
  step junk s o = (s', RError e) -> is_neww o = false ->
  snd (run junk s' ops) = snd (run junk s ops).
Proof. exact err_then_same. Qed.
Print Assumptions C07_cont.

(* non-vacuity: the scenario of the repaired defect (reset with an odd shard size on the
   default codec) *)
Example C07_example :
  let j := fun _ _ _ : N => 0 in
  let s := fst (step j init (ENew CRs DefaultE 3 2 64)) in
  snd (step j s (EReset 3 2 63)) = RError (InvalidShardSize 63) /\
  s_enc (fst (step j s (EReset 3 2 63))) = s_enc s /\
  snd (step j (fst (step j s (EReset 3 2 63))) (EAdd (repeat 0 64))) = ROkUnit.
Proof. vm_compute. repeat split. Qed.
