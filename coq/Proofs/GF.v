(* The field GF(2^16) of the crate (symbols in Cantor-basis representation, table-based product)
   as a MathComp fieldType, so that MathComp's polynomial library applies to it.
   This file is in ssreflect style; the laws come from Ring.v / Lagrange.v. *)
From mathcomp Require Import all_ssreflect all_algebra.
From Coq Require Import NArith.
From RS.Model Require Import Field.
From RS.Proofs Require Import FieldFacts Ring Lagrange.

Set Implicit Arguments.
Unset Strict Implicit.
Unset Printing Implicit Defensive.

Definition w16b (x : N) : bool := N.ltb x 65536.
Lemma w16P x : reflect (W16 x) (w16b x).
Proof. by apply: (iffP idP); rewrite /w16b /W16; move/N.ltb_lt. Qed.

Record gf : Type := GF { gval : N; gvalP : w16b gval }.
Canonical gf_subType := Eval hnf in [subType for gval].
Definition N_choiceMixin := CanChoiceMixin nat_of_binK.
Canonical N_choiceType := Eval hnf in ChoiceType N N_choiceMixin.
Definition gf_eqMixin := [eqMixin of gf by <:].
Canonical gf_eqType := Eval hnf in EqType gf gf_eqMixin.
Definition gf_choiceMixin := [choiceMixin of gf by <:].
Canonical gf_choiceType := Eval hnf in ChoiceType gf gf_choiceMixin.

Lemma gW (x : gf) : W16 (gval x). Proof. exact/w16P/gvalP. Qed.
Definition mkgf (x : N) (H : W16 x) : gf := GF (introT (w16P x) H).
Lemma gval_mkgf x H : gval (@mkgf x H) = x. Proof. by []. Qed.

Definition g0 : gf := mkgf W16_0.
Definition g1 : gf := mkgf W16_1.
Definition gadd (x y : gf) : gf := mkgf (W16_lxor _ _ (gW x) (gW y)).
Definition gmul (x y : gf) : gf := mkgf (fmul_lt _ _ (gW x) (gW y)).
Definition ginv (x : gf) : gf := if gval x == 0%num then g0 else mkgf (finv_W16 (gval x)).

Lemma gaddA : associative gadd.
Proof. by move=> x y z; apply: val_inj; rewrite /= N.lxor_assoc. Qed.
Lemma gaddC : commutative gadd.
Proof. by move=> x y; apply: val_inj; rewrite /= N.lxor_comm. Qed.
Lemma gadd0 : left_id g0 gadd.
Proof. by move=> x; apply: val_inj; rewrite /= ?N.lxor_0_l. Qed.
Lemma gaddN : left_inverse g0 id gadd.
Proof. by move=> x; apply: val_inj; rewrite /= N.lxor_nilpotent. Qed.

Definition gf_zmodMixin := ZmodMixin gaddA gaddC gadd0 gaddN.
Canonical gf_zmodType := Eval hnf in ZmodType gf gf_zmodMixin.

Lemma gmulA : associative gmul.
Proof. by move=> x y z; apply: val_inj; rewrite /= fmul_assoc //; exact: gW. Qed.
Lemma gmulC : commutative gmul.
Proof. by move=> x y; apply: val_inj; rewrite /= fmul_comm //; exact: gW. Qed.
Lemma gmul1 : left_id g1 gmul.
Proof.
move=> x; apply: val_inj; rewrite /=.
have Wx := gW x.
by rewrite fmul_comm; [rewrite fmul_1_r| exact: W16_1 |].
Qed.
Lemma gmulD : left_distributive gmul gadd.
Proof. by move=> x y z; apply: val_inj; rewrite /= fmul_lxor_l //; exact: gW. Qed.
Lemma g1_neq0 : g1 != g0.
Proof. by []. Qed.

Definition gf_comRingMixin := ComRingMixin gmulA gmulC gmul1 gmulD g1_neq0.
Canonical gf_ringType := Eval hnf in RingType gf gf_comRingMixin.
Canonical gf_comRingType := Eval hnf in ComRingType gf gmulC.

Lemma gmulV (x : gf) : x != 0%R -> gmul (ginv x) x = 1%R.
Proof.
move=> nz; apply: val_inj; rewrite /ginv /=.
have nz' : gval x <> 0%num by move=> E; case/negP: nz; apply/eqP/val_inj.
have -> : (gval x == 0%num) = false by apply/negP=> /eqP.
rewrite /= fmul_comm; [|exact: finv_W16|exact: gW].
by rewrite -fdiv_fmul; [apply: fdiv_self => //; exact: gW|exact: gW].
Qed.
Lemma ginv0 : ginv 0%R = 0%R.
Proof. by []. Qed.

Definition gf_unitRingMixin := FieldUnitMixin gmulV ginv0.
Canonical gf_unitRingType := Eval hnf in UnitRingType gf gf_unitRingMixin.
Canonical gf_comUnitRingType := Eval hnf in [comUnitRingType of gf].
Fact gf_field_axiom : GRing.Field.mixin_of gf_unitRingType. Proof. exact. Qed.
Definition gf_idomainMixin := FieldIdomainMixin gf_field_axiom.
Canonical gf_idomainType := Eval hnf in IdomainType gf gf_idomainMixin.
Canonical gf_fieldType := Eval hnf in FieldType gf gf_field_axiom.

(* ---------- transport lemmas ---------- *)
Lemma gvalD (x y : gf) : gval (x + y)%R = N.lxor (gval x) (gval y). Proof. by []. Qed.
Lemma gvalM (x y : gf) : gval (x * y)%R = fmul (gval x) (gval y). Proof. by []. Qed.
Lemma gval0 : gval 0%R = 0%num. Proof. by []. Qed.
Lemma gval1 : gval 1%R = 1%num. Proof. by []. Qed.
Lemma gfN (x : gf) : (- x = x)%R. Proof. by []. Qed.
Lemma gf_char2 (x : gf) : (x + x = 0)%R. Proof. by apply: val_inj; rewrite /= N.lxor_nilpotent. Qed.
