(* C12 — result accessors expose exactly the produced shards; drop starts a new round. *)
From Coq Require Import NArith Bool List Lia FMapPositive.
From RS.Gen Require Import Prelude GenConsts.
From RS.Model Require Import Field Sched Codec Layout Machine.
From RS.Proofs Require Import ShardLen DecShape.
Import ListNotations.
Local Open Scope N_scope.

(* recovery(i), for every index value: Some exactly below recovery_count, and then the i-th
   element the iterator yields *)
Theorem C12_rec : forall junk ep x probes x' rec pr,
  enc_encode junk ep x probes = (x', REnc rec pr) ->
  pr = map (fun i => (i, if i <? ew_R (e_work x) then nth_error rec (N.to_nat i) else None)) probes /\
  (forall i, ew_R (e_work x) <= i -> In i probes -> In (i, None) pr).
Proof.
  intros junk ep x probes x' rec pr. unfold enc_encode. destruct (negb _); [discriminate|].
  intros [= _ <- <-]. split; [reflexivity|].
  intros i Hi Hin. apply in_map_iff. exists i. split; [|exact Hin].
  apply N.ltb_ge in Hi. rewrite Hi. reflexivity.
Qed.
Print Assumptions C12_rec.

(* the iterator yields exactly recovery_count shards, each of exactly shard_bytes bytes, and
   recovery(i) is Some (that shard) exactly for i < recovery_count — for every encoder the
   machine can produce (enc_cfg is established by every constructor/reset and preserved by
   add and by dropping a result) *)
Theorem C12_rec_shape : forall junk ep x probes x' rec pr, enc_cfg x ->
  enc_encode junk ep x probes = (x', REnc rec pr) ->
  length rec = N.to_nat (ew_R (e_work x)) /\ Forall (fun b => blen b = ew_sb (e_work x)) rec /\
  (forall i, In i probes -> i < ew_R (e_work x) -> exists b, In (i, Some b) pr /\ blen b = ew_sb (e_work x)) /\
  enc_cfg x'.
Proof.
  intros junk ep x probes x' rec pr Hc He. destruct (enc_encode_shape junk ep x probes x' rec pr Hc He) as [L F].
  split; [exact L|]. split; [exact F|]. split.
  - destruct (C12_rec junk ep x probes x' rec pr He) as [Hpr _]. intros i Hi Hlt.
    assert (Hn : exists b, nth_error rec (N.to_nat i) = Some b).
    { destruct (nth_error rec (N.to_nat i)) eqn:E; [eexists; reflexivity|]. apply nth_error_None in E. lia. }
    destruct Hn as [b Hb]. exists b. split.
    + rewrite Hpr. apply in_map_iff. exists i. split; [|exact Hi]. apply N.ltb_lt in Hlt. rewrite Hlt, Hb. reflexivity.
    + rewrite Forall_forall in F. apply F. eapply nth_error_In. exact Hb.
  - unfold enc_encode in He. destruct (negb _); [discriminate|]. inversion He; subst. apply enc_after_round_cfg, Hc.
Qed.
Print Assumptions C12_rec_shape.

Theorem C12_cfg_invariant :
  (forall c e K R sb w x a, enc_make c e K R sb w = inl (x, a) -> enc_cfg x) /\
  (forall x s x', enc_cfg x -> enc_add x s = inl x' -> enc_cfg x').
Proof. split; [exact enc_make_cfg|exact enc_add_cfg]. Qed.
Print Assumptions C12_cfg_invariant.

(* decoder side of the shape: every restored shard - in the iterator and through
   restored_original(i) - has exactly shard_bytes bytes, for every decoder the machine can produce
   (dec_cfg is established by every constructor/reset and preserved by successful adds and by
   dropping a result) and whatever shards it was given *)
Theorem C12_res_shape : forall junk ep y probes y' it pr, dec_cfg y ->
  dec_decode junk ep y probes = (y', RDec it pr) ->
  Forall (fun ib => blen (snd ib) = dw_sb (d_work y)) it /\
  (forall i b, In (i, Some b) pr -> blen b = dw_sb (d_work y)) /\ dec_cfg y'.
Proof. exact dec_decode_shape. Qed.
Print Assumptions C12_res_shape.
Theorem C12_dec_cfg_invariant :
  (forall c e K R sb w y a, dec_make c e K R sb w = inl (y, a) -> dec_cfg y) /\
  (forall y a y', dec_cfg y -> PermFacts.dec_add y a = inl y' -> dec_cfg y').
Proof. split; [exact dec_make_cfg|exact dec_add_cfg]. Qed.
Print Assumptions C12_dec_cfg_invariant.

(* restored_original(i): Some only for in-range indexes that were not given *)
Theorem C12_res : forall junk ep x probes x' it pr i b,
  dec_decode junk ep x probes = (x', RDec it pr) -> In (i, Some b) pr ->
  i < dw_K (d_work x) /\ pmem (dw_received (d_work x)) (dw_obase (d_work x) + i) = false.
Proof.
  intros junk ep x probes x' it pr i b. unfold dec_decode.
  destruct (_ <? _); [discriminate|]. destruct (_ =? _).
  - intros [= _ _ <-] Hin. apply in_map_iff in Hin. destruct Hin as (k & Hk & _). discriminate.
  - intros [= _ _ <-] Hin. apply in_map_iff in Hin. destruct Hin as (k & Hk & _).
    inversion Hk; subst k; clear Hk.
    destruct ((i <? dw_K (d_work x)) && negb (pmem (dw_received (d_work x)) (dw_obase (d_work x) + i))) eqn:E; [|discriminate].
    apply andb_prop in E. destruct E as [E1 E2]. apply N.ltb_lt in E1. apply negb_true_iff in E2. auto.
Qed.
Print Assumptions C12_res.

(* the restored iterator visits indexes in ascending order and only missing originals *)
Lemma rangeN_ge k n : forall c, In k (rangeN c n) -> c <= k.
Proof.
  induction n as [|m IHm]; intros c H; [destruct H|]. destruct H as [<-|H]; [lia|]. apply IHm in H. lia.
Qed.

Lemma flat_map_sorted (f : N -> list (N * bytes)) (l : list N) :
  (forall i p, In p (f i) -> fst p = i) -> (forall i, (length (f i) <= 1)%nat) ->
  forall a n, l = rangeN a n ->
  forall j p q rest, skipn j (flat_map f l) = p :: q :: rest -> fst p < fst q.
Proof.
  intros Hf H1 a n. revert a l. induction n as [|n IH]; intros a l -> j p q rest.
  - cbn. destruct j; discriminate.
  - cbn [rangeN flat_map]. specialize (H1 a). destruct (f a) as [|p0 [|]] eqn:Ef; cbn [length] in H1; try lia.
    + cbn [app]. apply (IH (a + 1) _ eq_refl).
    + cbn [app]. destruct j as [|j]; [|apply (IH (a + 1) _ eq_refl)].
      cbn [skipn]. intros [= <- Hq].
      assert (Hp : fst p0 = a) by (apply Hf; rewrite Ef; left; reflexivity). rewrite Hp.
      assert (Hin : In q (flat_map f (rangeN (a + 1) n))) by (rewrite Hq; left; reflexivity).
      apply in_flat_map in Hin. destruct Hin as (k & Hk & Hqk). rewrite (Hf _ _ Hqk).
      apply rangeN_ge in Hk. lia.
Qed.

Theorem C12_res_iter_ascending : forall junk ep x probes x' it pr,
  dec_decode junk ep x probes = (x', RDec it pr) ->
  forall j p q rest, skipn j it = p :: q :: rest -> fst p < fst q.
Proof.
  intros junk ep x probes x' it pr. unfold dec_decode.
  destruct (_ <? _); [discriminate|]. destruct (_ =? _).
  - intros [= _ <- _] j p q rest H. destruct j; discriminate.
  - intros [= _ <- _]. eapply flat_map_sorted; [| |reflexivity].
    + intros i p Hp. destruct (_ && _); [|destruct Hp]. destruct (option_map _ _); [|destruct Hp].
      destruct Hp as [<-|[]]. reflexivity.
    + intros i. destruct (_ && _); [|cbn; lia]. destruct (option_map _ _); cbn; lia.
Qed.
Print Assumptions C12_res_iter_ascending.

(* dropping the result forgets the added shards: the same object immediately accepts a new
   round with the same configuration *)
Theorem C12_drop_enc : forall junk ep x probes x' rec pr shard,
  enc_encode junk ep x probes = (x', REnc rec pr) -> 0 < ew_K (e_work x) ->
  blen shard = ew_sb (e_work x) -> exists x'', enc_add x' shard = inl x''.
Proof.
  intros junk ep x probes x' rec pr shard. unfold enc_encode. destruct (negb _); [discriminate|].
  intros [= <- _ _] HK Hlen. unfold enc_add. cbn [enc_after_round e_work ew_recv ew_K ew_sb].
  destruct (N.eqb_spec 0 (ew_K (e_work x))) as [E|_]; [lia|].
  rewrite Hlen, N.eqb_refl. cbn [negb]. eexists; reflexivity.
Qed.
Print Assumptions C12_drop_enc.

Theorem C12_drop_dec : forall junk ep x probes x' it pr,
  dec_decode junk ep x probes = (x', RDec it pr) ->
  dw_orecv (d_work x') = 0 /\ dw_rrecv (d_work x') = 0 /\ dw_received (d_work x') = pempty /\
  dw_K (d_work x') = dw_K (d_work x) /\ dw_R (d_work x') = dw_R (d_work x) /\ dw_sb (d_work x') = dw_sb (d_work x).
Proof.
  intros junk ep x probes x' it pr. unfold dec_decode.
  destruct (_ <? _); [discriminate|]. destruct (_ =? _); intros [= <- _ _]; cbn; repeat split.
Qed.
Print Assumptions C12_drop_dec.

Example C12_example :
  let j := fun _ _ _ : N => 0 in
  match snd (run j init [ENew CRs DefaultE 2 3 2; EAdd [1; 2]; EAdd [3; 4]; EEncode [0; 2; 3; 18446744073709551615];
                         EAdd [5; 6]; EAdd [7; 8]; EEncode []]) with
  | [ROkUnit; ROkUnit; ROkUnit; REnc r1 p1; ROkUnit; ROkUnit; REnc r2 _] =>
    length r1 = 3%nat /\ map snd p1 = [nth_error r1 0; nth_error r1 2; None; None] /\ length r2 = 3%nat
  | _ => False
  end.
Proof. vm_compute. repeat split. Qed.

(* ---- the accessor decisions are the ones of the current Rust text: rs2v regenerates the decision trees of
   EncoderWork::recovery and DecoderWork::restored_original (Gen/GenGuards.v: None, or the first shard_bytes
   bytes of the shard at a work position) on every run; what the model's encode / decode report for the
   probes and in the iterator is exactly what those trees select ---- *)
From RS.Gen Require Import GenGuards.
From RS.Proofs Require Import GuardFacts.
Theorem C12_recovery_regenerated : forall junk ep x probes, ew_recv (e_work x) = ew_K (e_work x) ->
  snd (enc_encode junk ep x probes) =
  REnc (encode_shards junk ep x)
       (map (fun i => (i, enc_recovery_of (encode_shards junk ep x) (ew_R (e_work x)) (ew_sb (e_work x)) i)) probes).
Proof. exact enc_recovery_guard. Qed.
Print Assumptions C12_recovery_regenerated.
Theorem C12_restored_regenerated : forall junk ep x probes,
  (dw_orecv (d_work x) + dw_rrecv (d_work x) <? dw_K (d_work x)) = false -> (dw_orecv (d_work x) =? dw_K (d_work x)) = false ->
  let w := d_work x in
  let r := dec_restored_of (decode_work junk ep x) (dw_obase w) (dw_K w) (dw_sb w) (pmem (dw_received w)) in
  snd (dec_decode junk ep x probes) =
  RDec (flat_map (fun i => match r i with Some b => [(i, b)] | None => [] end) (range 0 (dw_K w)))
       (map (fun i => (i, r i)) probes).
Proof. exact dec_restored_guard. Qed.
Print Assumptions C12_restored_regenerated.
Check (eq_refl : enc_recovery_of = fun rec R sb i =>
  match gen_enc_recovery R sb i with GSome pos _ => nth_error rec (N.to_nat pos) | _ => None end).
Check (eq_refl : dec_restored_of = fun out obase K sb recv i =>
  match gen_dec_restored obase K sb i recv with GSome pos _ => option_map bytes_of_syms (nth_error out (N.to_nat pos)) | _ => None end).
