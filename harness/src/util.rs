//! Small self-contained helpers: hex, splitmix64, number parsing.

const HEX: &[u8; 16] = b"0123456789abcdef";

const fn make_unhex() -> [u8; 256] {
    let mut t = [0xffu8; 256];
    let mut i = 0;
    while i < 10 {
        t[b'0' as usize + i] = i as u8;
        i += 1;
    }
    let mut i = 0;
    while i < 6 {
        t[b'a' as usize + i] = 10 + i as u8;
        i += 1;
    }
    t
}

static UNHEX: [u8; 256] = make_unhex();

/// Appends lowercase hex of `data`; `-` if empty.
pub fn put_payload(out: &mut Vec<u8>, data: &[u8]) {
    if data.is_empty() {
        out.push(b'-');
        return;
    }
    out.reserve(data.len() * 2);
    for &b in data {
        out.push(HEX[(b >> 4) as usize]);
        out.push(HEX[(b & 15) as usize]);
    }
}

pub fn put_num(out: &mut Vec<u8>, n: u64) {
    let mut tmp = [0u8; 20];
    let mut i = 20;
    let mut n = n;
    loop {
        i -= 1;
        tmp[i] = b'0' + (n % 10) as u8;
        n /= 10;
        if n == 0 {
            break;
        }
    }
    out.extend_from_slice(&tmp[i..]);
}

/// Strict lowercase hex decoding.
pub fn hex_decode(s: &[u8]) -> Result<Vec<u8>, String> {
    if s.len() % 2 != 0 {
        return Err("odd-length-hex".into());
    }
    let mut out = Vec::with_capacity(s.len() / 2);
    for pair in s.chunks_exact(2) {
        let hi = UNHEX[pair[0] as usize];
        let lo = UNHEX[pair[1] as usize];
        if (hi | lo) & 0xf0 != 0 {
            return Err("bad-hex-digit".into());
        }
        out.push((hi << 4) | lo);
    }
    Ok(out)
}

pub fn parse_u64(s: &[u8]) -> Result<u64, String> {
    if s.is_empty() || s.len() > 20 {
        return Err(format!("bad-number:{}", String::from_utf8_lossy(s)));
    }
    let mut v: u64 = 0;
    for &c in s {
        if !c.is_ascii_digit() {
            return Err(format!("bad-number:{}", String::from_utf8_lossy(s)));
        }
        v = v
            .checked_mul(10)
            .and_then(|v| v.checked_add(u64::from(c - b'0')))
            .ok_or_else(|| format!("number-too-big:{}", String::from_utf8_lossy(s)))?;
    }
    Ok(v)
}

pub fn parse_usize(s: &[u8]) -> Result<usize, String> {
    parse_u64(s).map(|v| v as usize)
}

/// splitmix64 exactly as in PROTOCOL.md.
#[derive(Clone)]
pub struct SplitMix(pub u64);

impl SplitMix {
    pub fn new(seed: u64) -> Self {
        Self(seed)
    }

    #[inline]
    pub fn next(&mut self) -> u64 {
        self.0 = self.0.wrapping_add(0x9E37_79B9_7F4A_7C15);
        let mut z = self.0;
        z = (z ^ (z >> 30)).wrapping_mul(0xBF58_476D_1CE4_E5B9);
        z = (z ^ (z >> 27)).wrapping_mul(0x94D0_49BB_1331_11EB);
        z ^ (z >> 31)
    }

    /// Uniform-ish value in `0..n` (`n > 0`).
    pub fn below(&mut self, n: u64) -> u64 {
        self.next() % n
    }
}

/// `#<seed>:<len>` payload expansion.
pub fn splitmix_bytes(seed: u64, len: usize) -> Vec<u8> {
    let mut out = Vec::with_capacity(len + 8);
    let mut sm = SplitMix::new(seed);
    while out.len() < len {
        out.extend_from_slice(&sm.next().to_le_bytes());
    }
    out.truncate(len);
    out
}

/// Copies bytes (length must be a multiple of 64) into 64-byte blocks.
pub fn to_blocks(data: &[u8]) -> Vec<[u8; 64]> {
    debug_assert!(data.len() % 64 == 0);
    data.chunks_exact(64)
        .map(|c| {
            let mut b = [0u8; 64];
            b.copy_from_slice(c);
            b
        })
        .collect()
}
