(* GF(2^16): the table-based multiplication of the crate (tables::mul, modelled by
   Field.mul) is multiplication in F_2[x]/(GF_POLYNOMIAL) transported through the Cantor
   basis:  phi (mul x m) = pmul (phi x) (x^m),  for ALL 2^32 pairs, by algebra from a few
   single-variable sweeps. Consequences: mul is additive in x (linearity, C13), fmul is
   the field product. *)
From Coq Require Import NArith ZArith Lia Bool List.
From RS.Gen Require Import Prelude GenConsts.
From RS.Model Require Import Field.
Import ListNotations.
Local Open Scope N_scope.

Ltac Zify.zify_post_hook ::= Z.div_mod_to_equations.

Definition W16 (x : N) : Prop := x < 65536.

(* ---------- sweeps over one 16-bit variable ---------- *)
Lemma forallb_rangeN (P : N -> bool) (a : N) (n : nat) :
  forallb P (rangeN a n) = true -> forall i, a <= i < a + N.of_nat n -> P i = true.
Proof.
  revert a. induction n as [|n IH]; intros a H i Hi; [lia|].
  cbn [rangeN forallb] in H. apply andb_prop in H. destruct H as [H1 H2].
  destruct (N.eq_dec i a) as [->|Hne]; [exact H1|]. apply (IH (a + 1) H2). lia.
Qed.
Lemma sweep16 (P : N -> bool) : forallb P (rangeN 0 (N.to_nat 65536)) = true -> forall x, W16 x -> P x = true.
Proof. intros H x Hx. apply (forallb_rangeN _ _ _ H). rewrite N2Nat.id. unfold W16 in Hx. lia. Qed.

(* ---------- xor facts ---------- *)
Lemma lt_shiftr x n : x < 2 ^ n <-> N.shiftr x n = 0.
Proof.
  rewrite N.shiftr_div_pow2. assert (2 ^ n <> 0) by (apply N.pow_nonzero; lia).
  split; intros H0.
  - apply N.div_small. exact H0.
  - apply N.div_small_iff in H0; assumption.
Qed.
Lemma lxor_lt a b n : a < 2 ^ n -> b < 2 ^ n -> N.lxor a b < 2 ^ n.
Proof.
  rewrite !lt_shiftr. intros Ha Hb. rewrite N.shiftr_lxor, Ha, Hb. reflexivity.
Qed.
Lemma W16_lxor a b : W16 a -> W16 b -> W16 (N.lxor a b).
Proof. unfold W16. change 65536 with (2 ^ 16). apply lxor_lt. Qed.
Lemma W16_0 : W16 0. Proof. unfold W16; lia. Qed.

Lemma lxor_swap a b c : N.lxor (N.lxor a b) c = N.lxor (N.lxor a c) b.
Proof. rewrite !N.lxor_assoc. f_equal. apply N.lxor_comm. Qed.
Lemma lxor_4 a b c d : N.lxor (N.lxor a b) (N.lxor c d) = N.lxor (N.lxor a c) (N.lxor b d).
Proof. rewrite !N.lxor_assoc. f_equal. rewrite <- !N.lxor_assoc. f_equal. apply N.lxor_comm. Qed.

(* ---------- mulx ---------- *)
Lemma mulx_lt x : W16 x -> W16 (mulx x).
Proof.
  intros Hx. assert (H : forallb (fun x => mulx x <? 65536) (rangeN 0 (N.to_nat 65536)) = true) by (vm_compute; reflexivity).
  apply N.ltb_lt. exact (sweep16 _ H x Hx).
Qed.

Lemma carry_bit a : W16 a -> (GF_ORDER <=? N.shiftl a 1) = N.testbit a 15.
Proof.
  intros Ha. assert (H : forallb (fun a => Bool.eqb (GF_ORDER <=? N.shiftl a 1) (N.testbit a 15)) (rangeN 0 (N.to_nat 65536)) = true)
    by (vm_compute; reflexivity).
  apply eqb_prop. exact (sweep16 _ H a Ha).
Qed.

Lemma mulx_lxor a b : W16 a -> W16 b -> mulx (N.lxor a b) = N.lxor (mulx a) (mulx b).
Proof.
  intros Ha Hb. unfold mulx. cbv zeta.
  rewrite (carry_bit a Ha), (carry_bit b Hb), (carry_bit _ (W16_lxor _ _ Ha Hb)).
  rewrite N.lxor_spec, N.shiftl_lxor.
  destruct (N.testbit a 15), (N.testbit b 15); cbn [xorb].
  - rewrite lxor_4, N.lxor_nilpotent, N.lxor_0_r. reflexivity.
  - apply lxor_swap.
  - rewrite N.lxor_assoc. reflexivity.
  - reflexivity.
Qed.
Lemma mulx_0 : mulx 0 = 0. Proof. reflexivity. Qed.

(* ---------- pmul: carry-less product modulo GF_POLYNOMIAL ---------- *)
Fixpoint pmul_aux (n : nat) (i : N) (a b : N) : N :=
  match n with
  | O => 0
  | S k => N.lxor (if N.testbit a i then b else 0) (pmul_aux k (i + 1) a (mulx b))
  end.
Definition pmul (a b : N) : N := pmul_aux 16 0 a b.

Lemma pmul_aux_lt n : forall i a b, W16 b -> W16 (pmul_aux n i a b).
Proof.
  induction n as [|n IH]; intros i a b Hb; cbn [pmul_aux]; [apply W16_0|].
  apply W16_lxor; [destruct (N.testbit a i); [exact Hb|apply W16_0] | apply IH, mulx_lt, Hb].
Qed.
Lemma pmul_lt a b : W16 b -> W16 (pmul a b).
Proof. apply pmul_aux_lt. Qed.

Lemma pmul_aux_lxor_r n : forall i a b b', W16 b -> W16 b' ->
  pmul_aux n i a (N.lxor b b') = N.lxor (pmul_aux n i a b) (pmul_aux n i a b').
Proof.
  induction n as [|n IH]; intros i a b b' Hb Hb'; cbn [pmul_aux]; [reflexivity|].
  rewrite mulx_lxor by assumption. rewrite IH by (apply mulx_lt; assumption).
  destruct (N.testbit a i); [apply lxor_4|]. rewrite !N.lxor_0_l. reflexivity.
Qed.
Lemma pmul_lxor_r a b b' : W16 b -> W16 b' -> pmul a (N.lxor b b') = N.lxor (pmul a b) (pmul a b').
Proof. apply pmul_aux_lxor_r. Qed.

Lemma pmul_aux_lxor_l n : forall i a a' b,
  pmul_aux n i (N.lxor a a') b = N.lxor (pmul_aux n i a b) (pmul_aux n i a' b).
Proof.
  induction n as [|n IH]; intros i a a' b; cbn [pmul_aux]; [reflexivity|].
  rewrite IH, N.lxor_spec. rewrite lxor_4. f_equal.
  destruct (N.testbit a i), (N.testbit a' i); cbn [xorb];
    rewrite ?N.lxor_nilpotent, ?N.lxor_0_l, ?N.lxor_0_r; reflexivity.
Qed.
Lemma pmul_lxor_l a a' b : pmul (N.lxor a a') b = N.lxor (pmul a b) (pmul a' b).
Proof. apply pmul_aux_lxor_l. Qed.

Lemma pmul_aux_mulx n : forall i a b, W16 b -> pmul_aux n i a (mulx b) = mulx (pmul_aux n i a b).
Proof.
  induction n as [|n IH]; intros i a b Hb; cbn [pmul_aux]; [reflexivity|].
  rewrite mulx_lxor.
  - rewrite IH by (apply mulx_lt; exact Hb). destruct (N.testbit a i); reflexivity.
  - destruct (N.testbit a i); [exact Hb|apply W16_0].
  - apply pmul_aux_lt, mulx_lt, Hb.
Qed.
Lemma pmul_mulx a b : W16 b -> pmul a (mulx b) = mulx (pmul a b).
Proof. apply pmul_aux_mulx. Qed.

(* ---------- phi (Cantor basis conversion) is linear and injective ---------- *)
Lemma phi_aux_lxor l : forall i x y, phi_aux l i (N.lxor x y) = N.lxor (phi_aux l i x) (phi_aux l i y).
Proof.
  induction l as [|b l IH]; intros i x y; cbn [phi_aux]; [reflexivity|].
  rewrite IH, N.lxor_spec, lxor_4. f_equal.
  destruct (N.testbit x i), (N.testbit y i); cbn [xorb];
    rewrite ?N.lxor_nilpotent, ?N.lxor_0_l, ?N.lxor_0_r; reflexivity.
Qed.
Lemma phi_lxor x y : phi (N.lxor x y) = N.lxor (phi x) (phi y).
Proof. apply phi_aux_lxor. Qed.
Lemma phi_0 : phi 0 = 0. Proof. reflexivity. Qed.

Lemma phi_lt x : W16 x -> W16 (phi x).
Proof.
  intros Hx. assert (H : forallb (fun x => phi x <? 65536) (rangeN 0 (N.to_nat 65536)) = true) by (vm_compute; reflexivity).
  apply N.ltb_lt. exact (sweep16 _ H x Hx).
Qed.
Lemma phi_kernel z : W16 z -> phi z = 0 -> z = 0.
Proof.
  intros Hz. assert (H : forallb (fun z => (z =? 0) || negb (phi z =? 0)) (rangeN 0 (N.to_nat 65536)) = true) by (vm_compute; reflexivity).
  pose proof (sweep16 _ H z Hz) as Hz'. cbv beta in Hz'. intros E. rewrite E in Hz'. change (0 =? 0) with true in Hz'. cbn [negb] in Hz'. rewrite orb_false_r in Hz'. apply N.eqb_eq. exact Hz'.
Qed.
Lemma lxor_eq_0 a b : N.lxor a b = 0 -> a = b.
Proof. apply N.lxor_eq. Qed.
Lemma phi_inj x y : W16 x -> W16 y -> phi x = phi y -> x = y.
Proof.
  intros Hx Hy E. apply lxor_eq_0. apply phi_kernel; [apply W16_lxor; assumption|].
  rewrite phi_lxor, E. apply N.lxor_nilpotent.
Qed.

(* ---------- powers of x: pexp k = x^k mod P ---------- *)
Definition pexp (k : nat) : N := Nat.iter k mulx 1.
Lemma pexp_S k : pexp (S k) = mulx (pexp k). Proof. reflexivity. Qed.
Lemma pexp_lt k : W16 (pexp k).
Proof. induction k as [|k IH]; [unfold W16; cbn; lia|]. rewrite pexp_S. apply mulx_lt, IH. Qed.

(* pmul x 1 = x : the set bits of x select the powers x^i = 2^i *)
Lemma pmul_1_r x : W16 x -> pmul x 1 = x.
Proof.
  intros Hx. assert (H : forallb (fun x => pmul x 1 =? x) (rangeN 0 (N.to_nat 65536)) = true) by (vm_compute; reflexivity).
  apply N.eqb_eq. exact (sweep16 _ H x Hx).
Qed.

Lemma pexp_add a m : pexp (a + m) = pmul (pexp a) (pexp m).
Proof.
  induction m as [|m IH].
  - rewrite Nat.add_0_r. cbn [pexp Nat.iter]. symmetry. apply pmul_1_r, pexp_lt.
  - rewrite Nat.add_succ_r, !pexp_S, IH. symmetry. apply pmul_mulx, pexp_lt.
Qed.

(* iterating a function along a list of consecutive arguments *)
Fixpoint iter_check (n : nat) (k : N) (st : N) (P : N -> N -> bool) : bool :=
  match n with
  | O => true
  | S n' => P k st && iter_check n' (k + 1) (mulx st) P
  end.
Lemma iter_check_spec n : forall (j : nat) P,
  iter_check n (N.of_nat j) (pexp j) P = true ->
  forall i, (j <= i < j + n)%nat -> P (N.of_nat i) (pexp i) = true.
Proof.
  induction n as [|n IH]; intros j P H i Hi; [lia|].
  cbn [iter_check] in H. apply andb_prop in H. destruct H as [H1 H2].
  destruct (Nat.eq_dec i j) as [->|Hne]; [exact H1|].
  apply (IH (S j) P); [|lia].
  rewrite Nat2N.inj_succ, <- N.add_1_r, pexp_S. exact H2.
Qed.

Definition ORD : nat := N.to_nat 65535.
Lemma ORD_N : N.of_nat ORD = 65535. Proof. unfold ORD. apply N2Nat.id. Qed.

(* F1: the exp table holds the powers of x, read in the Cantor basis *)
Lemma exp_is_power k : k < 65535 -> phi (gexp k) = pexp (N.to_nat k).
Proof.
  intros Hk.
  assert (H : iter_check ORD 0 1 (fun k st => phi (gexp k) =? st) = true) by (vm_compute; reflexivity).
  pose proof (iter_check_spec ORD 0%nat (fun k st => phi (gexp k) =? st) H (N.to_nat k)) as G.
  cbv beta in G. rewrite N2Nat.id in G. apply N.eqb_eq. apply G. unfold ORD. lia.
Qed.
Lemma pexp_period : pexp ORD = 1.
Proof. vm_compute. reflexivity. Qed.

Lemma glog_lt x : W16 x -> x <> 0 -> glog x < 65535 /\ gexp (glog x) = x.
Proof.
  intros Hx Hn.
  assert (H : forallb (fun v => (v =? 0) || ((gexp (glog v) =? v) && (glog v <? 65535))) (rangeN 0 (N.to_nat 65536)) = true)
    by (vm_compute; reflexivity).
  pose proof (sweep16 _ H x Hx) as Hx'. cbv beta in Hx'. apply N.eqb_neq in Hn. rewrite Hn in Hx'. cbn [orb] in Hx'.
  apply andb_prop in Hx'. destruct Hx' as [H1 H2]. apply N.eqb_eq in H1. apply N.ltb_lt in H2. auto.
Qed.
Lemma gexp_wrap : gexp 65535 = gexp 0. Proof. vm_compute. reflexivity. Qed.

(* F2: phi x = x^(log x) *)
Lemma phi_is_power x : W16 x -> x <> 0 -> phi x = pexp (N.to_nat (glog x)).
Proof.
  intros Hx Hn. destruct (glog_lt x Hx Hn) as [Hl He].
  rewrite <- He at 1. apply exp_is_power. exact Hl.
Qed.

Lemma pexp_mod k : pexp (k + ORD) = pexp k.
Proof. rewrite pexp_add, pexp_period. apply pmul_1_r, pexp_lt. Qed.

(* ---------- the main theorem: all 2^32 pairs ---------- *)
Theorem mul_is_field_mul x m : W16 x -> m <= 65535 ->
  phi (mul x m) = pmul (phi x) (pexp (N.to_nat m)).
Proof.
  intros Hx Hm. unfold mul. destruct (N.eqb_spec x 0) as [->|Hn].
  - rewrite phi_0. reflexivity.
  - destruct (glog_lt x Hx Hn) as [Hl _]. rewrite (phi_is_power x Hx Hn).
    rewrite <- pexp_add, <- N2Nat.inj_add. set (a := glog x) in *.
    unfold add_mod. cbv zeta. destruct (N.ltb_spec (a + m) 65536) as [Hs|Hs].
    + destruct (N.eq_dec (a + m) 65535) as [E|E].
      * rewrite E, gexp_wrap. rewrite exp_is_power by lia.
        change (N.to_nat 65535) with (0 + ORD)%nat. rewrite pexp_mod. reflexivity.
      * rewrite exp_is_power by lia. reflexivity.
    + rewrite exp_is_power by lia.
      replace (N.to_nat (a + m)) with (N.to_nat (a + m - 65535) + ORD)%nat by (unfold ORD; lia).
      rewrite pexp_mod. reflexivity.
Qed.

Lemma pmul_0_l b : pmul 0 b = 0.
Proof. reflexivity. Qed.

Lemma mul_lt x m : W16 x -> m <= 65535 -> W16 (mul x m).
Proof.
  intros Hx Hm. unfold mul. destruct (x =? 0); [apply W16_0|].
  assert (H : forallb (fun k => gexp k <? 65536) (rangeN 0 (N.to_nat 65536)) = true) by (vm_compute; reflexivity).
  apply N.ltb_lt. apply (sweep16 _ H). unfold W16, add_mod. cbv zeta.
  assert (glog x <= 65535).
  { assert (H2 : forallb (fun v => glog v <=? 65535) (rangeN 0 (N.to_nat 65536)) = true) by (vm_compute; reflexivity).
    apply N.leb_le. exact (sweep16 _ H2 x Hx). }
  destruct (glog x + m <? 65536) eqn:E; [apply N.ltb_lt in E; exact E|apply N.ltb_ge in E; lia].
Qed.

(* C13 / C15: multiplication by g^m is additive in the symbol *)
Theorem mul_additive x y m : W16 x -> W16 y -> m <= 65535 ->
  mul (N.lxor x y) m = N.lxor (mul x m) (mul y m).
Proof.
  intros Hx Hy Hm. apply phi_inj.
  - apply mul_lt; [apply W16_lxor; assumption|exact Hm].
  - apply W16_lxor; apply mul_lt; assumption.
  - rewrite phi_lxor, !mul_is_field_mul by (try apply W16_lxor; assumption).
    rewrite phi_lxor. apply pmul_lxor_l.
Qed.
