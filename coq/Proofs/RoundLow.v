(* C01, low rate, end to end: what encode_low produces, decode_low_work restores. *)
From Coq Require Import NArith Arith Lia Bool List Permutation.
From RS.Gen Require Import Prelude GenConsts.
From RS.Model Require Import Field Tables Sched Codec Spec.
From RS.Proofs Require Import RateFacts FieldFacts Ring Scale FftSpec SchedEquiv Trunc Lengths FftTrunc Lagrange Cauchy LchPoly DecodeBase DecodeLow Locator.
Import ListNotations.
Local Open Scope N_scope.

(* the encoder's output as values of one polynomial of degree < m = 2^k *)
Lemma encode_low_as_poly e K R w k : 1 <= K -> 1 <= R -> npow2 K = 2 ^ N.of_nat k -> 2 ^ N.of_nat k + R <= 65536 ->
  Forall W16 w -> (N.to_nat (2 ^ N.of_nat k) <= length w)%nat ->
  exists co, length co = p2 k /\ Forall W16 co /\
    (forall i, i < K -> lch k co i = nth (N.to_nat i) w 0) /\
    (forall i, K <= i -> i < 2 ^ N.of_nat k -> lch k co i = 0) /\
    (forall j, j < R -> nth (N.to_nat j) (encode_low sym_ops e K R w) 0 = lch k co (2 ^ N.of_nat k + j)).
Proof.
  intros HK HR Hm Henv Ww Hw. set (m := 2 ^ N.of_nat k) in *.
  pose proof (npow2_ge K) as HKm. rewrite Hm in HKm.
  assert (Hmpos : 0 < m) by (unfold m; pose proof (N.pow_nonzero 2 (N.of_nat k)); lia).
  assert (Hk : (k <= 15)%nat).
  { destruct (Nat.le_gt_cases k 15) as [H|H]; [exact H|]. exfalso.
    assert (2 ^ 16 <= m) by (unfold m; apply N.pow_le_mono_r; lia). change (2 ^ 16) with 65536 in *. lia. }
  assert (Pm : N.to_nat m = p2 k) by (apply Nat2N.inj; rewrite N2Nat.id, p2_N; reflexivity).
  set (c0 := zero_tail sym_ops (N.to_nat K) (firstn (N.to_nat m) w)).
  assert (Lf : length (firstn (N.to_nat m) w) = p2 k) by (rewrite firstn_length; lia).
  assert (L0 : length c0 = p2 k) by (unfold c0; rewrite zero_tail_len; lia).
  assert (W0 : Forall W16 c0) by (unfold c0; apply zero_tail_W16, Forall_firstn', Ww).
  set (co := ifft sym_ops e m K 0 c0).
  assert (L0' : N.of_nat (length c0) = 2 ^ N.of_nat k) by (rewrite L0; apply p2_N).
  assert (Lco : length co = p2 k) by (unfold co, m; rewrite ifft_len by (try exact L0'; lia); exact L0).
  assert (Wco : Forall W16 co) by (unfold co; apply ifft_W16; exact W0).
  assert (Val : forall v, (v < p2 k)%nat -> lch k co (N.of_nat v) = nth v c0 0).
  { intros v Hv. pose proof (ifft_interpolates e k 0 c0 K ltac:(lia)) as I. cbv zeta in I. rewrite N.mul_0_l, !N.add_0_l in I.
    fold m in I. apply I; try assumption; try lia.
    intros i Hi Hle. apply zero_tail_contract; [lia| |rewrite N2Nat.id; exact Hle]. fold c0. exact Hi. }
  exists co. split; [exact Lco|]. split; [exact Wco|]. split; [|split].
  - intros i Hi. rewrite <- (N2Nat.id i) at 1. rewrite Val by lia. unfold c0. rewrite zero_tail_nth by lia.
    destruct (Nat.ltb_spec (N.to_nat i) (N.to_nat K)); [|lia]. apply nth_firstn_lt'. lia.
  - intros i Hi1 Hi2. rewrite <- (N2Nat.id i) at 1. rewrite Val by lia. unfold c0. rewrite zero_tail_nth by lia.
    destruct (Nat.ltb_spec (N.to_nat i) (N.to_nat K)); [lia|reflexivity].
  - intros j Hj. unfold encode_low, np2. rewrite Hm. fold m. fold c0. fold co.
    rewrite nth_firstn_lt' by lia.
    pose proof (low_chunks_nth e R k Hk Henv (S (N.to_nat (R / m))) 0 co 0 eq_refl Lco Wco ltac:(lia)
                  ltac:(rewrite N.sub_0_r; apply Nat.lt_succ_diag_r) (N.to_nat j) ltac:(lia)) as LC.
    fold m in LC. rewrite LC. rewrite N.add_0_l, N2Nat.id. reflexivity.
Qed.

(* ---------- counting received shards ---------- *)
Definition cnt (f : N -> bool) (a b : N) : nat := length (filter f (range a b)).
Lemma filter_len_compl {A} (f : A -> bool) (l : list A) :
  (length (filter f l) + length (filter (fun x => negb (f x)) l) = length l)%nat.
Proof. induction l as [|x l IH]; cbn; [reflexivity|]. destruct (f x); cbn; lia. Qed.
Lemma range_length a b : length (range a b) = N.to_nat (b - a).
Proof. unfold range. apply rangeN_length. Qed.
Lemma filter_none {A} (f : A -> bool) l : (forall x, In x l -> f x = false) -> filter f l = [].
Proof. induction l as [|x l IH]; intros H; cbn; [reflexivity|]. rewrite (H x (or_introl eq_refl)). apply IH. intros y Hy. apply H. right. exact Hy. Qed.
Lemma in_range_iff i a b : In i (range a b) <-> a <= i < a + (b - a).
Proof. unfold range. rewrite in_rangeN_iff, N2Nat.id. reflexivity. Qed.

Section Round.
Variables (e e' : engine) (K R : N) (recv : N -> bool) (k kn : nat).
Let m := 2 ^ N.of_nat k.
Let n := 2 ^ N.of_nat kn.
Let re := m + R.
Hypothesis HK : 1 <= K.
Hypothesis HR : 1 <= R.
Hypothesis Hm : npow2 K = m.
Hypothesis Henv : m + R <= 65536.
Hypothesis Hkn : (kn <= 16)%nat.
Hypothesis Hre : re <= n.

Lemma En_low_length :
  length (En_low K R recv k kn) = (N.to_nat K - cnt recv 0 K + (N.to_nat R - cnt recv m re) + N.to_nat (n - re))%nat.
Proof.
  pose proof (npow2_ge K) as HKm. rewrite Hm in HKm.
  unfold En_low. fold m n re.
  rewrite (range_split 0 K n), (range_split K m n), (range_split m re n) by lia.
  rewrite !filter_app, !app_length.
  assert (E1 : filter (el_low K R recv k) (range 0 K) = filter (fun x => negb (recv x)) (range 0 K)).
  { apply filter_ext_in. intros x Hx. apply in_range_iff in Hx. unfold el_low. fold m re. destruct (N.ltb_spec x K); [reflexivity|lia]. }
  assert (E2 : filter (el_low K R recv k) (range K m) = []).
  { apply filter_none. intros x Hx. apply in_range_iff in Hx. unfold el_low. fold m re.
    destruct (N.ltb_spec x K); [lia|]. destruct (N.ltb_spec x m); [reflexivity|lia]. }
  assert (E3 : filter (el_low K R recv k) (range m re) = filter (fun x => negb (recv x)) (range m re)).
  { apply filter_ext_in. intros x Hx. apply in_range_iff in Hx. unfold el_low. fold m re.
    destruct (N.ltb_spec x K); [lia|]. destruct (N.ltb_spec x m); [lia|]. destruct (N.ltb_spec x re); [reflexivity|lia]. }
  assert (E4 : filter (el_low K R recv k) (range re n) = range re n).
  { apply filter_id. intros x Hx. apply in_range_iff in Hx. unfold el_low. fold m re.
    destruct (N.ltb_spec x K); [lia|]. destruct (N.ltb_spec x m); [lia|]. destruct (N.ltb_spec x re); [lia|reflexivity]. }
  rewrite E1, E2, E3, E4. cbn [length].
  pose proof (filter_len_compl recv (range 0 K)) as C1. pose proof (filter_len_compl recv (range m re)) as C2.
  rewrite !range_length in *. unfold cnt. unfold re in *. lia.
Qed.

Theorem decode_low_roundtrip (w work : list N) :
  Forall W16 w -> (N.to_nat m <= length w)%nat -> length work = p2 kn -> Forall W16 work ->
  (forall i, i < K -> recv i = true -> nth (N.to_nat i) work 0 = nth (N.to_nat i) w 0) ->
  (forall j, j < R -> recv (m + j) = true ->
     nth (N.to_nat (m + j)) work 0 = nth (N.to_nat j) (encode_low sym_ops e K R w) 0) ->
  (N.to_nat K <= cnt recv 0 K + cnt recv m re)%nat ->
  forall i, i < K -> recv i = false ->
  nth (N.to_nat i) (snd (decode_low_work sym_ops e' K R recv work)) 0 = nth (N.to_nat i) w 0.
Proof.
  intros Ww Lw Lwork Wwork Hro Hrr Hcnt i Hi Hri.
  pose proof (npow2_ge K) as HKm. rewrite Hm in HKm.
  destruct (encode_low_as_poly e K R w k HK HR Hm Henv Ww Lw) as (co & Lco & Wco & Vo & Vpad & Vr).
  assert (Hk : (k <= kn)%nat).
  { assert (H : 2 ^ N.of_nat k <= 2 ^ N.of_nat kn) by (fold m n; unfold re in Hre; lia).
    apply N.pow_le_mono_r_iff in H; lia. }
  rewrite <- (Vo i Hi).
  apply (decode_low_symbols e' K R recv k kn Hm HK Hkn Hre co work HR Henv Hk Lco Wco Lwork Wwork).
  - intros i0 Hi0 Hr0. rewrite Vo by exact Hi0. apply Hro; assumption.
  - exact Vpad.
  - intros i0 H1 H2 Hr0. fold m in H1. fold re in H2. unfold re in H2.
    replace i0 with (m + (i0 - m)) in * by lia. rewrite Hrr by (try assumption; lia). rewrite Vr by lia. reflexivity.
  - rewrite En_low_length. fold m n re.
    assert (P1 : N.of_nat (p2 k) = m) by apply p2_N. assert (P2 : N.of_nat (p2 kn) = n) by apply p2_N.
    assert (C1 : (cnt recv 0 K <= N.to_nat K)%nat).
    { unfold cnt. pose proof (filter_len_compl recv (range 0 K)) as C. rewrite range_length in C. lia. }
    assert (C2 : (cnt recv m re <= N.to_nat R)%nat).
    { unfold cnt. pose proof (filter_len_compl recv (range m re)) as C. rewrite range_length in C. unfold re in *. lia. }
    unfold re in *. lia.
  - (* the locator values *)
    assert (E : low_erasures K R recv = map (fun i => if el_low K R recv k i then 1 else 0) (range 0 GF_ORDER)).
    { unfold low_erasures. cbv zeta. unfold np2. rewrite Hm. apply map_ext. intros x. unfold el_low. fold m re.
      destruct (x <? K); [destruct (recv x); reflexivity|]. destruct (x <? m); [reflexivity|].
      unfold re. destruct (x <? m + R); [destruct (recv x); reflexivity|reflexivity]. }
    rewrite E. apply eval_poly_er_spec; [lia|]. intros v Hv1 Hv2. unfold GF_ORDER in Hv1. lia.
  - exact Hi.
  - exact Hri.
Qed.
End Round.
