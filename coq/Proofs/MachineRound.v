(* C01 at the level of the codec objects of the machine: a decoder object that holds any
   sufficient set of the shards an encoder object produced (anything else in its working memory
   being stale junk) restores exactly the missing original shards. *)
From Coq Require Import NArith Arith Lia Bool List FMapPositive.
From RS.Gen Require Import Prelude GenConsts.
From RS.Model Require Import Field Tables Sched Codec Layout Machine Spec.
From RS.Proofs Require Import RateFacts FieldFacts Param Linear FftSpec Lengths Cauchy ShardLen LayoutFacts
     DecodeBase RoundLow RoundHigh RoundShards.
From RS.Proofs Require Import LayoutFacts2.
Import ListNotations.
Local Open Scope N_scope.

(* ---------- W16 lanes through the encoder (parametricity with a unary relation) ---------- *)
Section LanesW.
Variable lanes : nat.
Definition Rw16 (a b : list N) : Prop := length a = lanes /\ Forall W16 a.
Lemma Rw16_xor a a' b b' : Rw16 a a' -> Rw16 b b' -> Rw16 (xorT (shard_ops lanes) a b) (xorT (shard_ops lanes) a' b').
Proof.
  intros [La Wa] [Lb Wb]. split; cbn.
  - unfold map2. rewrite map_length, combine_length, La, Lb. apply Nat.min_id.
  - eapply FftSpec.Forall_map2; [|exact Wa|exact Wb]. intros; apply W16_lxor; assumption.
Qed.
Lemma Rw16_mul a a' m : okm m -> Rw16 a a' -> Rw16 (mulT (shard_ops lanes) a m) (mulT (shard_ops lanes) a' m).
Proof.
  intros Hm [La Wa]. split; cbn; [rewrite map_length; exact La|].
  apply Forall_forall. intros y Hy. apply in_map_iff in Hy. destruct Hy as (x & <- & Hx). rewrite Forall_forall in Wa. apply mul_lt; auto.
Qed.
Lemma Rw16_zero : Rw16 (zeroT (shard_ops lanes)) (zeroT (shard_ops lanes)).
Proof. split; cbn; [apply repeat_length|]. apply Forall_forall. intros y Hy. apply repeat_spec in Hy. subst. apply W16_0. Qed.
Lemma Rw16_refl w : Forall (fun s => length s = lanes) w -> Forall (Forall W16) w -> Forall2 Rw16 w w.
Proof. intros H1 H2. induction H1; inversion H2; subst; constructor; [split; assumption|auto]. Qed.
Lemma Rw16_out a b : Forall2 Rw16 a b -> Forall (Forall W16) a.
Proof. induction 1 as [|x y a b [_ H] _ IH]; constructor; assumption. Qed.
Lemma encode_high_W16 e K R w : Forall (fun s => length s = lanes) w -> Forall (Forall W16) w ->
  Forall (Forall W16) (encode_high (shard_ops lanes) e K R w).
Proof. intros H1 H2. eapply Rw16_out. apply (RL_encode_high _ _ Rw16 Rw16_xor Rw16_mul Rw16_zero). apply Rw16_refl; assumption. Qed.
Lemma encode_low_W16 e K R w : Forall (fun s => length s = lanes) w -> Forall (Forall W16) w ->
  Forall (Forall W16) (encode_low (shard_ops lanes) e K R w).
Proof. intros H1 H2. eapply Rw16_out. apply (RL_encode_low _ _ Rw16 Rw16_xor Rw16_mul Rw16_zero). apply Rw16_refl; assumption. Qed.
End LanesW.

(* ---------- the work vector of an object ---------- *)
Section Work.
Variable junk : N -> N -> N -> N.
Hypothesis Hjunk : forall a b c, junk a b c < 65536.

Lemma junk_shard_facts ep p lanes : length (junk_shard junk ep p lanes) = N.to_nat lanes /\ Forall W16 (junk_shard junk ep p lanes).
Proof.
  unfold junk_shard. split; [rewrite map_length; unfold range; rewrite rangeN_length; lia|].
  apply Forall_forall. intros y Hy. apply in_map_iff in Hy. destruct Hy as (x & <- & _). apply Hjunk.
Qed.
Lemma work_list_length ep m wc lanes : length (work_list junk ep m wc lanes) = N.to_nat wc.
Proof. unfold work_list. rewrite map_length. unfold range. rewrite rangeN_length. lia. Qed.
Lemma work_list_nth ep m wc lanes p : p < wc ->
  nth (N.to_nat p) (work_list junk ep m wc lanes) [] = match mget m p with Some s => s | None => junk_shard junk ep p lanes end.
Proof.
  intros Hp. unfold work_list. rewrite (nth_map_lt _ 0) by (unfold range; rewrite rangeN_length; lia).
  unfold range. rewrite nth_rangeN by lia. rewrite N.add_0_l, N2Nat.id. reflexivity.
Qed.
Lemma work_list_shape ep m wc lanes : (forall p s, mget m p = Some s -> length s = N.to_nat lanes /\ Forall W16 s) ->
  Forall (fun s => length s = N.to_nat lanes) (work_list junk ep m wc lanes) /\ Forall (Forall W16) (work_list junk ep m wc lanes).
Proof.
  intros Hm. unfold work_list. split; apply Forall_forall; intros s Hs; apply in_map_iff in Hs; destruct Hs as (p & <- & _);
    (destruct (mget m p) as [s|] eqn:E; [apply (Hm p s E)|apply junk_shard_facts]).
Qed.
End Work.

(* ---------- low rate ---------- *)
Section LowObjects.
Variable junk : N -> N -> N -> N.
Hypothesis Hjunk : forall a b c, junk a b c < 65536.
Variables (ep ep' : N) (x : encoder) (y : decoder) (K R sb : N) (orig : N -> list N).
Let lanesN := lanes_of sb.
Let lanes := N.to_nat lanesN.
Let m := npow2 K.

Hypothesis HK : 1 <= K.
Hypothesis HR : 1 <= R.
Hypothesis Henv : m + R <= 65536.
(* the encoder object: all originals added *)
Hypothesis Xrate : e_rate x = Low.
Hypothesis XK : ew_K (e_work x) = K.
Hypothesis XR : ew_R (e_work x) = R.
Hypothesis Xsb : ew_sb (e_work x) = sb.
Hypothesis Xwc : ew_wc (e_work x) = low_enc_work_count K R.
Hypothesis Xmem : forall p s, mget (ew_mem (e_work x)) p = Some s -> length s = lanes /\ Forall W16 s.
Hypothesis Xorig : forall i, i < K -> mget (ew_mem (e_work x)) i = Some (orig i).
(* the decoder object *)
Hypothesis Yrate : d_rate y = Low.
Hypothesis YK : dw_K (d_work y) = K.
Hypothesis YR : dw_R (d_work y) = R.
Hypothesis Ysb : dw_sb (d_work y) = sb.
Hypothesis Ywc : dw_wc (d_work y) = low_dec_work_count K R.
Hypothesis Ymem : forall p s, mget (dw_mem (d_work y)) p = Some s -> length s = lanes /\ Forall W16 s.
Hypothesis Yorig : forall i, i < K -> pmem (dw_received (d_work y)) i = true -> mget (dw_mem (d_work y)) i = Some (orig i).
Hypothesis Yrec : forall j, j < R -> pmem (dw_received (d_work y)) (m + j) = true ->
  mget (dw_mem (d_work y)) (m + j) = Some (syms_of_bytes (nth (N.to_nat j) (encode_shards junk ep x) [])).
Hypothesis Ycount : (N.to_nat K <= cnt (pmem (dw_received (d_work y))) 0 K + cnt (pmem (dw_received (d_work y))) m (m + R))%nat.

Theorem machine_low_restores : forall i, i < K -> pmem (dw_received (d_work y)) i = false ->
  nth (N.to_nat i) (decode_work junk ep' y) [] = orig i.
Proof.
  intros i Hi Hri.
  pose proof (npow2_ge K) as HKm. fold m in HKm.
  destruct (npow2_exp K HK ltac:(lia)) as (k & Hk & Hmk). fold m in Hmk.
  set (n := npow2 (m + R)).
  destruct (npow2_exp (m + R) ltac:(lia) Henv) as (kn & Hkn & Hnk). fold n in Hnk.
  pose proof (npow2_ge (m + R)) as Hren. fold n in Hren.
  set (ework := work_list junk ep (ew_mem (e_work x)) (ew_wc (e_work x)) lanesN).
  set (dwork := work_list junk ep' (dw_mem (d_work y)) (dw_wc (d_work y)) lanesN).
  destruct (work_list_shape junk Hjunk ep (ew_mem (e_work x)) (ew_wc (e_work x)) lanesN Xmem) as [Hw Ww]. fold ework in Hw, Ww.
  destruct (work_list_shape junk Hjunk ep' (dw_mem (d_work y)) (dw_wc (d_work y)) lanesN Ymem) as [Hwork Wwork]. fold dwork in Hwork, Wwork.
  assert (Lework : length ework = N.to_nat (low_enc_work_count K R)) by (unfold ework; rewrite (work_list_length junk Hjunk), Xwc; reflexivity).
  assert (Ldwork : length dwork = p2 kn).
  { unfold dwork. rewrite (work_list_length junk Hjunk), Ywc. unfold low_dec_work_count, np2. fold m n. rewrite Hnk.
    apply Nat2N.inj. rewrite N2Nat.id, p2_N. reflexivity. }
  assert (Hewc : m <= low_enc_work_count K R).
  { unfold low_enc_work_count, np2. fold m. destruct (next_mult_spec R m ltac:(lia)) as [H1 [q Hq]]. rewrite Hq in H1 |- *. clear - H1 HR HKm HK. destruct q; [lia|nia]. }
  assert (Hdwc : dw_wc (d_work y) = n) by (rewrite Ywc; unfold low_dec_work_count, np2; reflexivity).
  (* the shards the encoder produced, as symbols *)
  set (rsyms := encode_low (shard_ops lanes) (e_engine x) K R ework).
  assert (Erec : encode_shards junk ep x = map bytes_of_syms rsyms).
  { unfold encode_shards. rewrite Xrate, Xsb, XK, XR. reflexivity. }
  assert (Lrs : length rsyms = N.to_nat R).
  { unfold rsyms. apply encode_low_length; try lia. unfold np2. fold m. rewrite Lework. lia. }
  assert (Wrs : Forall (Forall W16) rsyms) by (apply encode_low_W16; assumption).
  unfold decode_work. rewrite Yrate, Ysb, YK, YR. fold lanesN lanes dwork.
  set (recv := pmem (dw_received (d_work y))) in *.
  assert (Ei : orig i = nth (N.to_nat i) ework []).
  { unfold ework. rewrite (work_list_nth junk Hjunk) by (rewrite Xwc; lia). rewrite Xorig by exact Hi. reflexivity. }
  rewrite Ei.
  rewrite Hmk in *.
  apply (decode_low_roundtrip_shards lanes (e_engine x) (d_engine y) K R recv k kn ework dwork HK HR Hkn Hw Ww Hwork Wwork Ldwork);
    try assumption; try lia.
  - intros i0 Hi0 Hr0. unfold dwork, ework. rewrite !(work_list_nth junk Hjunk) by (rewrite ?Xwc, ?Hdwc; lia).
    rewrite (Yorig i0 Hi0 Hr0), (Xorig i0 Hi0). reflexivity.
  - intros j Hj Hr0. unfold dwork. rewrite (work_list_nth junk Hjunk) by (rewrite Hdwc; lia).
    rewrite (Yrec j Hj Hr0), Erec. rewrite (nth_map_lt _ []) by lia.
    apply unpack_pack. rewrite Forall_forall in Wrs. apply Wrs. apply nth_In. lia.
Qed.
End LowObjects.

(* ---------- high rate ---------- *)
Section HighObjects.
Variable junk : N -> N -> N -> N.
Hypothesis Hjunk : forall a b c, junk a b c < 65536.
Variables (ep ep' : N) (x : encoder) (y : decoder) (K R sb : N) (orig : N -> list N).
Let lanesN := lanes_of sb.
Let lanes := N.to_nat lanesN.
Let m := npow2 R.

Hypothesis HK : 1 <= K.
Hypothesis HR : 1 <= R.
Hypothesis Henv : m + K <= 65536.
Hypothesis Xrate : e_rate x = High.
Hypothesis XK : ew_K (e_work x) = K.
Hypothesis XR : ew_R (e_work x) = R.
Hypothesis Xsb : ew_sb (e_work x) = sb.
Hypothesis Xwc : ew_wc (e_work x) = high_enc_work_count K R.
Hypothesis Xmem : forall p s, mget (ew_mem (e_work x)) p = Some s -> length s = lanes /\ Forall W16 s.
Hypothesis Xorig : forall i, i < K -> mget (ew_mem (e_work x)) i = Some (orig i).
Hypothesis Yrate : d_rate y = High.
Hypothesis YK : dw_K (d_work y) = K.
Hypothesis YR : dw_R (d_work y) = R.
Hypothesis Ysb : dw_sb (d_work y) = sb.
Hypothesis Ywc : dw_wc (d_work y) = high_dec_work_count K R.
Hypothesis Ymem : forall p s, mget (dw_mem (d_work y)) p = Some s -> length s = lanes /\ Forall W16 s.
Hypothesis Yorig : forall i, i < K -> pmem (dw_received (d_work y)) (m + i) = true -> mget (dw_mem (d_work y)) (m + i) = Some (orig i).
Hypothesis Yrec : forall j, j < R -> pmem (dw_received (d_work y)) j = true ->
  mget (dw_mem (d_work y)) j = Some (syms_of_bytes (nth (N.to_nat j) (encode_shards junk ep x) [])).
Hypothesis Ycount : (N.to_nat K <= cnt (pmem (dw_received (d_work y))) 0 R + cnt (pmem (dw_received (d_work y))) m (m + K))%nat.

Theorem machine_high_restores : forall i, i < K -> pmem (dw_received (d_work y)) (m + i) = false ->
  nth (N.to_nat (m + i)) (decode_work junk ep' y) [] = orig i.
Proof.
  intros i Hi Hri.
  pose proof (npow2_ge R) as HRm. fold m in HRm.
  destruct (npow2_exp R HR ltac:(lia)) as (k & Hk & Hmk). fold m in Hmk.
  set (n := npow2 (m + K)).
  destruct (npow2_exp (m + K) ltac:(lia) Henv) as (kn & Hkn & Hnk). fold n in Hnk.
  pose proof (npow2_ge (m + K)) as Hoen. fold n in Hoen.
  set (ework := work_list junk ep (ew_mem (e_work x)) (ew_wc (e_work x)) lanesN).
  set (dwork := work_list junk ep' (dw_mem (d_work y)) (dw_wc (d_work y)) lanesN).
  destruct (work_list_shape junk Hjunk ep (ew_mem (e_work x)) (ew_wc (e_work x)) lanesN Xmem) as [Hw Ww]. fold ework in Hw, Ww.
  destruct (work_list_shape junk Hjunk ep' (dw_mem (d_work y)) (dw_wc (d_work y)) lanesN Ymem) as [Hwork Wwork]. fold dwork in Hwork, Wwork.
  assert (Lework : length ework = N.to_nat (high_enc_work_count K R)) by (unfold ework; rewrite (work_list_length junk Hjunk), Xwc; reflexivity).
  assert (Ldwork : length dwork = p2 kn).
  { unfold dwork. rewrite (work_list_length junk Hjunk), Ywc. unfold high_dec_work_count, np2. fold m n. rewrite Hnk.
    apply Nat2N.inj. rewrite N2Nat.id, p2_N. reflexivity. }
  assert (Hewc : K <= high_enc_work_count K R).
  { unfold high_enc_work_count, np2. fold m. destruct (next_mult_spec K m ltac:(lia)) as [H1 _]. exact H1. }
  assert (Hdwc : dw_wc (d_work y) = n) by (rewrite Ywc; unfold high_dec_work_count, np2; reflexivity).
  set (rsyms := encode_high (shard_ops lanes) (e_engine x) K R ework).
  assert (Erec : encode_shards junk ep x = map bytes_of_syms rsyms).
  { unfold encode_shards. rewrite Xrate, Xsb, XK, XR. reflexivity. }
  assert (Lrs : length rsyms = N.to_nat R).
  { unfold rsyms. apply encode_high_length; try lia; exact Lework. }
  assert (Wrs : Forall (Forall W16) rsyms) by (apply encode_high_W16; assumption).
  unfold decode_work. rewrite Yrate, Ysb, YK, YR. fold lanesN lanes dwork.
  set (recv := pmem (dw_received (d_work y))) in *.
  assert (Ei : orig i = nth (N.to_nat i) ework []).
  { unfold ework. rewrite (work_list_nth junk Hjunk) by (rewrite Xwc; lia). rewrite Xorig by exact Hi. reflexivity. }
  rewrite Ei.
  rewrite Hmk in *.
  apply (decode_high_roundtrip_shards lanes (e_engine x) (d_engine y) K R recv k kn ework dwork HK HR Hkn Hw Ww Hwork Wwork Ldwork);
    try assumption; try lia.
  - intros j Hj Hr0. unfold dwork. rewrite (work_list_nth junk Hjunk) by (rewrite Hdwc; lia).
    rewrite (Yrec j Hj Hr0), Erec. rewrite (nth_map_lt _ []) by lia.
    apply unpack_pack. rewrite Forall_forall in Wrs. apply Wrs. apply nth_In. lia.
  - intros i0 Hi0 Hr0. unfold dwork, ework. rewrite !(work_list_nth junk Hjunk) by (rewrite ?Xwc, ?Hdwc; lia).
    rewrite (Yorig i0 Hi0 Hr0), (Xorig i0 Hi0). reflexivity.
Qed.
End HighObjects.
