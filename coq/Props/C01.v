(* C01 — any original_count of the shards restore every missing original.
   Instances by computation on the executable model (symbol level, both rates, both
   schedules, stale junk in every work position that is not received): for every
   configuration with K + R <= 3, EVERY subset of the shards with at least K members.
   General theorems, both rates (C01_low, C01_high): for EVERY configuration of the envelope,
   every pair of engine schedules (encoder, decoder), every set of received shards with at
   least original_count members, every data and every junk in the unreceived work positions,
   the decoder returns the missing originals.  Proof: Lagrange/LCH polynomial theory over the
   MathComp field GF(2^16) (LchPoly.v), Walsh-Hadamard convolution for eval_poly (Walsh.v,
   Locator.v), truncated transforms (Trunc.v). *)
From Coq Require Import NArith Bool List Lia.
From RS.Gen Require Import Prelude GenConsts.
From RS.Model Require Import Field Tables Sched Codec Spec.
From RS.Model Require Import Layout Machine.
From RS.Proofs Require Import PermFacts RoundLow RoundHigh RoundShards MachineOps OneShotRound.
Import ListNotations.
Local Open Scope N_scope.

(* received shards are counted on the work positions: originals at [0, K), recovery at
   [m, m + R) with m = next_power_of_two(K) *)
Theorem C01_low : forall (e e' : engine) (K R : N) (recv : N -> bool) (k kn : nat) (w work : list N),
  1 <= K -> 1 <= R -> npow2 K = 2 ^ N.of_nat k -> 2 ^ N.of_nat k + R <= 65536 ->
  (kn <= 16)%nat -> 2 ^ N.of_nat k + R <= 2 ^ N.of_nat kn ->
  Forall (fun x => x < 65536) w -> (N.to_nat (2 ^ N.of_nat k) <= length w)%nat ->
  length work = Nat.pow 2 kn -> Forall (fun x => x < 65536) work ->
  (* the decoder's work vector holds the received originals and recovery symbols; anything else is junk *)
  (forall i, i < K -> recv i = true -> nth (N.to_nat i) work 0 = nth (N.to_nat i) w 0) ->
  (forall j, j < R -> recv (2 ^ N.of_nat k + j) = true ->
     nth (N.to_nat (2 ^ N.of_nat k + j)) work 0 = nth (N.to_nat j) (encode_low sym_ops e K R w) 0) ->
  (* at least original_count shards were received *)
  (N.to_nat K <= cnt recv 0 K + cnt recv (2 ^ N.of_nat k) (2 ^ N.of_nat k + R))%nat ->
  forall i, i < K -> recv i = false ->
  nth (N.to_nat i) (snd (decode_low_work sym_ops e' K R recv work)) 0 = nth (N.to_nat i) w 0.
Proof. intros e e' K R recv k kn w work; intros. eapply (decode_low_roundtrip e e' K R recv k kn); eassumption. Qed.
Print Assumptions C01_low.

(* high rate: recovery at [0, R), originals at [m, m + K) with m = next_power_of_two(R) *)
Theorem C01_high : forall (e e' : engine) (K R : N) (recv : N -> bool) (k kn : nat) (w work : list N),
  1 <= K -> 1 <= R -> npow2 R = 2 ^ N.of_nat k -> 2 ^ N.of_nat k + K <= 65536 ->
  (kn <= 16)%nat -> 2 ^ N.of_nat k + K <= 2 ^ N.of_nat kn ->
  Forall (fun x => x < 65536) w -> length w = N.to_nat (high_enc_work_count K R) ->
  length work = Nat.pow 2 kn -> Forall (fun x => x < 65536) work ->
  (forall j, j < R -> recv j = true ->
     nth (N.to_nat j) work 0 = nth (N.to_nat j) (encode_high sym_ops e K R w) 0) ->
  (forall i, i < K -> recv (2 ^ N.of_nat k + i) = true ->
     nth (N.to_nat (2 ^ N.of_nat k + i)) work 0 = nth (N.to_nat i) w 0) ->
  (N.to_nat K <= cnt recv 0 R + cnt recv (2 ^ N.of_nat k) (2 ^ N.of_nat k + K))%nat ->
  forall i, i < K -> recv (2 ^ N.of_nat k + i) = false ->
  nth (N.to_nat (2 ^ N.of_nat k + i)) (snd (decode_high_work sym_ops e' K R recv work)) 0 = nth (N.to_nat i) w 0.
Proof. intros e e' K R recv k kn w work; intros. eapply (decode_high_roundtrip e e' K R recv k kn); eassumption. Qed.
Print Assumptions C01_high.

(* whole shards (lists of 16-bit lanes): the restored shard is the original shard *)
Theorem C01_low_shards : forall lanes (e e' : engine) (K R : N) (recv : N -> bool) (k kn : nat) (w work : list (list N)),
  1 <= K -> 1 <= R -> (kn <= 16)%nat ->
  Forall (fun s => length s = lanes) w -> Forall (Forall (fun x => x < 65536)) w ->
  Forall (fun s => length s = lanes) work -> Forall (Forall (fun x => x < 65536)) work -> length work = Nat.pow 2 kn ->
  npow2 K = 2 ^ N.of_nat k -> 2 ^ N.of_nat k + R <= 65536 -> 2 ^ N.of_nat k + R <= 2 ^ N.of_nat kn ->
  (N.to_nat (2 ^ N.of_nat k) <= length w)%nat ->
  (forall i, i < K -> recv i = true -> nth (N.to_nat i) work [] = nth (N.to_nat i) w []) ->
  (forall j, j < R -> recv (2 ^ N.of_nat k + j) = true ->
     nth (N.to_nat (2 ^ N.of_nat k + j)) work [] = nth (N.to_nat j) (encode_low (shard_ops lanes) e K R w) []) ->
  (N.to_nat K <= cnt recv 0 K + cnt recv (2 ^ N.of_nat k) (2 ^ N.of_nat k + R))%nat ->
  forall i, i < K -> recv i = false ->
  nth (N.to_nat i) (snd (decode_low_work (shard_ops lanes) e' K R recv work)) [] = nth (N.to_nat i) w [].
Proof. intros lanes e e' K R recv k kn w work; intros. eapply (decode_low_roundtrip_shards lanes e e' K R recv k kn); eassumption. Qed.
Print Assumptions C01_low_shards.

Theorem C01_high_shards : forall lanes (e e' : engine) (K R : N) (recv : N -> bool) (k kn : nat) (w work : list (list N)),
  1 <= K -> 1 <= R -> (kn <= 16)%nat ->
  Forall (fun s => length s = lanes) w -> Forall (Forall (fun x => x < 65536)) w ->
  Forall (fun s => length s = lanes) work -> Forall (Forall (fun x => x < 65536)) work -> length work = Nat.pow 2 kn ->
  npow2 R = 2 ^ N.of_nat k -> 2 ^ N.of_nat k + K <= 65536 -> 2 ^ N.of_nat k + K <= 2 ^ N.of_nat kn ->
  length w = N.to_nat (high_enc_work_count K R) ->
  (forall j, j < R -> recv j = true ->
     nth (N.to_nat j) work [] = nth (N.to_nat j) (encode_high (shard_ops lanes) e K R w) []) ->
  (forall i, i < K -> recv (2 ^ N.of_nat k + i) = true -> nth (N.to_nat (2 ^ N.of_nat k + i)) work [] = nth (N.to_nat i) w []) ->
  (N.to_nat K <= cnt recv 0 R + cnt recv (2 ^ N.of_nat k) (2 ^ N.of_nat k + K))%nat ->
  forall i, i < K -> recv (2 ^ N.of_nat k + i) = false ->
  nth (N.to_nat (2 ^ N.of_nat k + i)) (snd (decode_high_work (shard_ops lanes) e' K R recv work)) [] = nth (N.to_nat i) w [].
Proof. intros lanes e e' K R recv k kn w work; intros. eapply (decode_high_roundtrip_shards lanes e e' K R recv k kn); eassumption. Qed.
Print Assumptions C01_high_shards.

(* ---------- through the streaming API of the machine ---------- *)
(* Make an encoder (any codec, engine, valid configuration and shard size, any recycled working
   space), add the originals, encode.  Make a decoder (any engine, any recycled working space),
   add ANY list of shards that the decoder accepts, each being the original or the produced
   recovery shard of its index, at least original_count of them.  Then the decoder's working
   vector holds at the position of every original that was not added exactly that original (as
   packed symbols; unpacked: the original bytes) - which is what restored_original(i) and the
   iterator return (C12).  junk = the stale contents of both working memories. *)
Theorem C01_api_low : forall junk, (forall a b c, junk a b c < 65536) ->
  forall c ee ed K R sb ep ep' originals, validateb c K R sb = None -> rate_of c K R = Low ->
  N.of_nat (length originals) = K -> Forall (byteshard sb) originals ->
  forall w0 x0 x a0, enc_make c ee K R sb w0 = inl (x0, a0) -> enc_add_all x0 originals = inl x ->
  forall v0 y0 y b0 adds, dec_make c ed K R sb v0 = inl (y0, b0) -> dec_adds y0 adds = inl y ->
  (forall a, In a adds -> match a with AddO i s => s = nth (N.to_nat i) originals []
                                     | AddR j s => s = nth (N.to_nat j) (encode_shards junk ep x) [] end) ->
  K <= N.of_nat (length adds) ->
  forall i, i < K -> (forall s, ~ In (AddO i s) adds) ->
  nth (N.to_nat i) (decode_work junk ep' y) [] = syms_of_bytes (nth (N.to_nat i) originals []) /\
  bytes_of_syms (nth (N.to_nat i) (decode_work junk ep' y) []) = nth (N.to_nat i) originals [].
Proof. intros. eapply ops_low_restores; eassumption. Qed.
Print Assumptions C01_api_low.

Theorem C01_api_high : forall junk, (forall a b c, junk a b c < 65536) ->
  forall c ee ed K R sb ep ep' originals, validateb c K R sb = None -> rate_of c K R = High ->
  N.of_nat (length originals) = K -> Forall (byteshard sb) originals ->
  forall w0 x0 x a0, enc_make c ee K R sb w0 = inl (x0, a0) -> enc_add_all x0 originals = inl x ->
  forall v0 y0 y b0 adds, dec_make c ed K R sb v0 = inl (y0, b0) -> dec_adds y0 adds = inl y ->
  (forall a, In a adds -> match a with AddO i s => s = nth (N.to_nat i) originals []
                                     | AddR j s => s = nth (N.to_nat j) (encode_shards junk ep x) [] end) ->
  K <= N.of_nat (length adds) ->
  forall i, i < K -> (forall s, ~ In (AddO i s) adds) ->
  nth (N.to_nat (npow2 R + i)) (decode_work junk ep' y) [] = syms_of_bytes (nth (N.to_nat i) originals []) /\
  bytes_of_syms (nth (N.to_nat (npow2 R + i)) (decode_work junk ep' y) []) = nth (N.to_nat i) originals [].
Proof. intros. eapply ops_high_restores; eassumption. Qed.
Print Assumptions C01_api_high.

(* ... and decode() itself: it succeeds and its iterator contains (i, original i) for every
   original that was not given *)
Theorem C01_api_decode : forall junk, (forall a b c, junk a b c < 65536) ->
  forall c ee ed K R sb ep ep' originals, validateb c K R sb = None ->
  N.of_nat (length originals) = K -> Forall (byteshard sb) originals ->
  forall w0 x0 x a0, enc_make c ee K R sb w0 = inl (x0, a0) -> enc_add_all x0 originals = inl x ->
  forall v0 y0 y b0 adds, dec_make c ed K R sb v0 = inl (y0, b0) -> dec_adds y0 adds = inl y ->
  (forall a, In a adds -> match a with AddO i s => s = nth (N.to_nat i) originals []
                                     | AddR j s => s = nth (N.to_nat j) (encode_shards junk ep x) [] end) ->
  K <= N.of_nat (length adds) ->
  forall probes i, i < K -> (forall s, ~ In (AddO i s) adds) ->
  exists y' it pr, dec_decode junk ep' y probes = (y', RDec it pr) /\ In (i, nth (N.to_nat i) originals []) it.
Proof.
  intros junk Hj c ee ed K R sb ep ep' originals Hv; intros. destruct (rate_of c K R) eqn:Er.
  - eapply ops_high_decode; eassumption.
  - eapply ops_low_decode; eassumption.
Qed.
Print Assumptions C01_api_decode.

(* ... and the one-shot functions: whenever decode() accepts a selection (any order, any subset with
   at least original_count members) of the originals and of the shards encode() returned for them,
   its result contains every missing original *)
Theorem C01_oneshot : forall junk, (forall a b c, junk a b c < 65536) ->
  forall K R sb ep ep' originals recs, N.of_nat (length originals) = K -> Forall (byteshard sb) originals ->
  oneshot_encode junk ep K R originals = RShards recs ->
  forall orig rec, (forall i s, In (i, s) orig -> s = nth (N.to_nat i) originals []) ->
  (forall j s, In (j, s) rec -> s = nth (N.to_nat j) recs []) ->
  K <= N.of_nat (length orig + length rec) -> rec <> [] \/ orig <> [] ->
  forall it, oneshot_decode junk ep' K R orig rec = RMap it ->
  forall i, i < K -> (forall s, ~ In (i, s) orig) -> In (i, nth (N.to_nat i) originals []) it.
Proof. intros. eapply oneshot_roundtrip; eassumption. Qed.
Print Assumptions C01_oneshot.

Definition data (K : N) : list N := map (fun i => (i * 40503 + 977) mod 65536) (range 0 K).
Definition junkv (i : N) : N := (i * 7919 + 4242) mod 65536.

Fixpoint subsets {A} (l : list A) : list (list A) :=
  match l with [] => [[]] | x :: r => let s := subsets r in s ++ map (cons x) s end.
Definition mem (x : N) (l : list N) : bool := existsb (N.eqb x) l.

(* one round trip at symbol level: encode, keep the shards in [os] / [rs], decode, compare *)
Definition roundtrip (high : bool) (e : engine) (K R : N) (os rs : list N) : bool :=
  let d := data K in
  let m := if high then np2 R else np2 K in
  let rec := if high then encode_high sym_ops e K R (d ++ map junkv (range K (high_enc_work_count K R)))
             else encode_low sym_ops e K R (d ++ map junkv (range K (N.max m (low_enc_work_count K R)))) in
  let n := if high then high_dec_work_count K R else low_dec_work_count K R in
  let opos i := if high then m + i else i in
  let rpos j := if high then j else m + j in
  let recv p := existsb (fun i => p =? opos i) os || existsb (fun j => p =? rpos j) rs in
  let work := map (fun p => if existsb (fun i => p =? opos i) os then nth (N.to_nat (p - opos 0)) d 0
                            else if existsb (fun j => p =? rpos j) rs then nth (N.to_nat (p - rpos 0)) rec 0
                            else junkv p) (range 0 n) in
  let out := snd (if high then decode_high_work sym_ops e K R recv work else decode_low_work sym_ops e K R recv work) in
  forallb (fun i => mem i os || (nth (N.to_nat (opos i)) out 0 =? nth (N.to_nat i) d 0)) (range 0 K).

Definition all_subsets_ok (high : bool) (e : engine) (K R : N) : bool :=
  forallb (fun os => forallb (fun rs =>
     (N.of_nat (length os + length rs) <? K) || (N.of_nat (length os) =? K) || roundtrip high e K R os rs)
     (subsets (range 0 R))) (subsets (range 0 K)).

Theorem C01_small_exhaustive :
  forallb (fun kr => all_subsets_ok true NoSimd (fst kr) (snd kr) && all_subsets_ok false NoSimd (fst kr) (snd kr))
          [(1, 1); (1, 2); (2, 1)] = true.
Proof. vm_compute. reflexivity. Qed.
Print Assumptions C01_small_exhaustive.

Theorem C01_instances :
  roundtrip true Naive 5 3 [1; 3] [0; 1; 2] && roundtrip false Naive 3 5 [1] [0; 4] &&
  roundtrip true NoSimd 9 4 [0; 2; 4; 6; 8] [0; 1; 2; 3] && roundtrip false NoSimd 4 9 [] [8; 1; 5; 2] = true.
Proof. vm_compute. reflexivity. Qed.
Print Assumptions C01_instances.
