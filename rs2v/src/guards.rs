//! GenGuards.v: the decision trees of the entry points of the working spaces
//! (`EncoderWork::add_original_shard` / `encode_begin`, `DecoderWork::add_original_shard` /
//! `add_recovery_shard` / `decode_begin`): which `Err` (variant and fields) or which `Ok`
//! branch a call takes, as a function of the fields read, the arguments and the received bitmap.
//!
//! Only the decision is translated. The statements of a branch that ends in `Ok(..)`
//! (storing the shard, bumping a counter, setting a bit) are effects; they are not translated
//! here and stay tied to the model by the correspondence check. Anything outside the small
//! grammar below aborts the translation.
//!
//!   body   ::= ( `let x = x.as_ref();` | `let v = sum;` | `let s = self.shards[sum].as_flattened();`
//!              | `if cond { return Err(E); }` )*  ( tail | branch )
//!   tail   ::= `if cond { branch } else tail` | `{ branch }` | branch
//!   branch ::= effect* ( `Ok(..)` | `Err(E)` ) | `None` | `Some(&self.shards[sum].as_flattened()[..sum])`
//!              (effects only before `Ok`; early `if cond { return None; }` is accepted as well)
//!   cond   ::= sum (== | != | < | <= | > | >=) sum | `self.received[sum]`
//!   sum    ::= atom | sum + atom
//!   atom   ::= `self.f` | ident | `ident.len()`

use std::collections::{BTreeSet, HashMap};

use syn::{BinOp, Block, Expr, Stmt};

use crate::gen::{impl_fn, HEADER};
use crate::util::*;

struct G<'a> {
    file: &'a str,
    func: String,
    ctors: &'a HashMap<String, Vec<String>>,
    /// `self.f` fields read (all usize)
    fields: BTreeSet<String>,
    /// function parameters used as numbers
    params: Vec<String>,
    /// `x.len()` of a parameter
    lens: Vec<String>,
    uses_received: bool,
    locals: Vec<String>,
    sig_params: Vec<String>,
    ok_count: usize,
    /// locals bound to `self.shards[pos].as_flattened()`: name -> pos
    shard_locals: HashMap<String, String>,
}

fn path_ident(e: &Expr) -> Option<String> {
    if let Expr::Path(p) = e {
        if p.qself.is_none() && p.path.segments.len() == 1 && p.path.segments[0].arguments.is_none() {
            return Some(p.path.segments[0].ident.to_string());
        }
    }
    None
}

fn is_self(e: &Expr) -> bool {
    path_ident(e).as_deref() == Some("self")
}

/// `self.f`
fn self_field(e: &Expr) -> Option<String> {
    if let Expr::Field(f) = e {
        if is_self(&f.base) {
            if let syn::Member::Named(i) = &f.member {
                return Some(i.to_string());
            }
        }
    }
    None
}

/// is the expression rooted at `self` (`self.a.b(..)`, `self.a[..]`, ...)?
fn rooted_at_self(e: &Expr) -> bool {
    match e {
        Expr::Field(f) => is_self(&f.base) || rooted_at_self(&f.base),
        Expr::MethodCall(m) => rooted_at_self(&m.receiver),
        Expr::Index(i) => rooted_at_self(&i.expr),
        Expr::Paren(p) => rooted_at_self(&p.expr),
        _ => false,
    }
}

impl<'a> G<'a> {
    fn un<T>(&self, what: impl AsRef<str>) -> R<T> {
        unsupported(what, self.file, &self.func)
    }

    fn atom(&mut self, e: &Expr) -> R<String> {
        match e {
            Expr::Paren(p) => self.sum(&p.expr),
            Expr::Field(_) => match self_field(e) {
                Some(f) if f != "received" && f != "shards" => {
                    self.fields.insert(f.clone());
                    Ok(f)
                }
                _ => self.un("field access other than a numeric `self.f`"),
            },
            Expr::Path(_) => match path_ident(e) {
                Some(n) if self.locals.contains(&n) => Ok(n),
                Some(n) if self.sig_params.contains(&n) => {
                    if !self.params.contains(&n) {
                        self.params.push(n.clone());
                    }
                    Ok(n)
                }
                _ => self.un("name that is neither a parameter nor a local"),
            },
            Expr::MethodCall(m) if m.method == "len" && m.args.is_empty() && m.turbofish.is_none() => {
                match path_ident(&m.receiver) {
                    Some(n) if self.sig_params.contains(&n) => {
                        if !self.lens.contains(&n) {
                            self.lens.push(n.clone());
                        }
                        Ok(format!("{}_len", n))
                    }
                    _ => self.un("`.len()` of something that is not a parameter"),
                }
            }
            _ => self.un("expression outside the guard grammar"),
        }
    }

    fn sum(&mut self, e: &Expr) -> R<String> {
        match e {
            Expr::Binary(b) if matches!(b.op, BinOp::Add(_)) => {
                let l = self.sum(&b.left)?;
                let r = self.atom(&b.right)?;
                Ok(format!("({} + {})", l, r))
            }
            _ => self.atom(e),
        }
    }

    fn cond(&mut self, e: &Expr) -> R<String> {
        match e {
            Expr::Paren(p) => self.cond(&p.expr),
            Expr::Index(ix) => {
                if self_field(&ix.expr).as_deref() == Some("received") {
                    let i = self.sum(&ix.index)?;
                    self.uses_received = true;
                    Ok(format!("(received {})", i))
                } else {
                    self.un("index expression other than `self.received[..]`")
                }
            }
            Expr::Binary(b) => {
                let l = self.sum(&b.left)?;
                let r = self.sum(&b.right)?;
                Ok(match b.op {
                    BinOp::Eq(_) => format!("({} =? {})", l, r),
                    BinOp::Ne(_) => format!("(negb ({} =? {}))", l, r),
                    BinOp::Lt(_) => format!("({} <? {})", l, r),
                    BinOp::Le(_) => format!("({} <=? {})", l, r),
                    BinOp::Gt(_) => format!("({} <? {})", r, l),
                    BinOp::Ge(_) => format!("({} <=? {})", r, l),
                    _ => return self.un("condition operator outside == != < <= > >="),
                })
            }
            _ => self.un("condition outside the guard grammar"),
        }
    }

    /// `Err(Error::V { .. })`
    fn err_value(&mut self, e: &Expr) -> R<Option<String>> {
        let c = match e {
            Expr::Call(c) => c,
            _ => return Ok(None),
        };
        if path_ident(&c.func).as_deref() != Some("Err") || c.args.len() != 1 {
            return Ok(None);
        }
        let s = match &c.args[0] {
            Expr::Struct(s) => s,
            _ => return self.un("`Err(..)` whose argument is not an `Error::Variant { .. }`"),
        };
        if s.qself.is_some() || s.rest.is_some() || s.dot2_token.is_some() {
            return self.un("struct expression with `..`");
        }
        let ids: Vec<String> = s.path.segments.iter().map(|x| x.ident.to_string()).collect();
        let variant = match ids.as_slice() {
            [e, v] if e == "Error" => v.clone(),
            [c, e, v] if c == "crate" && e == "Error" => v.clone(),
            _ => return self.un("error value that is not `Error::Variant { .. }`"),
        };
        let order = match self.ctors.get(&variant) {
            Some(o) => o.clone(),
            None => return self.un(format!("unknown Error variant `{}`", variant)),
        };
        let mut vals: HashMap<String, String> = HashMap::new();
        for f in &s.fields {
            if has_cfg(&f.attrs) {
                return self.un("#[cfg] on a struct field initialiser");
            }
            let fname = match &f.member {
                syn::Member::Named(i) => i.to_string(),
                _ => return self.un("tuple-struct field"),
            };
            let v = self.sum(&f.expr)?;
            if vals.insert(fname.clone(), v).is_some() {
                return self.un(format!("duplicate field `{}`", fname));
            }
        }
        if vals.len() != order.len() || order.iter().any(|f| !vals.contains_key(f)) {
            return self.un(format!("fields of Error::{} do not match its declaration", variant));
        }
        let args: Vec<String> = order.iter().map(|f| vals[f].clone()).collect();
        Ok(Some(format!("GErr ({} {})", variant, args.join(" "))))
    }

    /// `None` / `Some(&self.shards[pos].as_flattened()[..len])`
    fn opt_value(&mut self, e: &Expr) -> R<Option<String>> {
        if path_ident(e).as_deref() == Some("None") {
            return Ok(Some("GNone".to_string()));
        }
        let c = match e {
            Expr::Call(c) if path_ident(&c.func).as_deref() == Some("Some") && c.args.len() == 1 => c,
            _ => return Ok(None),
        };
        // &  self.shards[pos] .as_flattened() [..len]
        let inner = match &c.args[0] {
            Expr::Reference(r) if r.mutability.is_none() => &*r.expr,
            _ => return self.un("`Some(..)` whose argument is not a shared slice of a shard"),
        };
        let (base, range) = match inner {
            Expr::Index(ix) => (&*ix.expr, &*ix.index),
            _ => return self.un("`Some(..)` whose argument is not a shared slice of a shard"),
        };
        let len = match range {
            Expr::Range(r) if r.start.is_none() && matches!(r.limits, syn::RangeLimits::HalfOpen(_)) => match &r.end {
                Some(e) => self.sum(e)?,
                None => return self.un("open range"),
            },
            _ => return self.un("slice that is not `[..len]`"),
        };
        let pos = match base {
            Expr::Path(_) => match path_ident(base).and_then(|n| self.shard_locals.get(&n).cloned()) {
                Some(p) => p,
                None => return self.un("slice of a local that is not a flattened shard"),
            },
            _ => match self.shard_pos(base)? {
                Some(p) => p,
                None => return self.un("slice of something that is not `self.shards[pos].as_flattened()`"),
            },
        };
        Ok(Some(format!("GSome {} {}", pos, len)))
    }

    /// `self.shards[pos].as_flattened()` -> pos
    fn shard_pos(&mut self, e: &Expr) -> R<Option<String>> {
        let shard = match e {
            Expr::MethodCall(m) if m.method == "as_flattened" && m.args.is_empty() => &*m.receiver,
            _ => return Ok(None),
        };
        match shard {
            Expr::Index(ix) if self_field(&ix.expr).as_deref() == Some("shards") => Ok(Some(self.sum(&ix.index)?)),
            _ => Ok(None),
        }
    }

    /// `let name = self.shards[pos].as_flattened();`
    fn shard_let(&mut self, s: &Stmt) -> R<bool> {
        if let Stmt::Local(l) = s {
            if has_cfg(&l.attrs) {
                return Ok(false);
            }
            let name = match &l.pat {
                syn::Pat::Ident(pi) if pi.by_ref.is_none() && pi.subpat.is_none() => pi.ident.to_string(),
                _ => return Ok(false),
            };
            let init = match &l.init {
                Some(i) if i.diverge.is_none() => &*i.expr,
                _ => return Ok(false),
            };
            if let Some(p) = self.shard_pos(init)? {
                self.shard_locals.insert(name, p);
                return Ok(true);
            }
        }
        Ok(false)
    }

    fn is_ok(e: &Expr) -> bool {
        if let Expr::Call(c) = e {
            return path_ident(&c.func).as_deref() == Some("Ok") && c.args.len() == 1;
        }
        false
    }

    /// statements that only act on `self` (method calls, `self.f += ..`, `self.f = ..`)
    fn is_effect(s: &Stmt) -> bool {
        match s {
            Stmt::Expr(Expr::MethodCall(m), Some(_)) => rooted_at_self(&m.receiver),
            Stmt::Expr(Expr::Binary(b), Some(_)) => {
                matches!(b.op, BinOp::AddAssign(_) | BinOp::SubAssign(_)) && rooted_at_self(&b.left)
            }
            Stmt::Expr(Expr::Assign(a), Some(_)) => rooted_at_self(&a.left),
            _ => false,
        }
    }

    /// effect* (Ok(..) | Err(E)) | nested tail
    fn branch(&mut self, stmts: &[Stmt]) -> R<String> {
        let (last, init) = match stmts.split_last() {
            Some(x) => x,
            None => return self.un("empty branch"),
        };
        let tail = match last {
            Stmt::Expr(e, None) => e,
            _ => return self.un("branch that does not end in an expression"),
        };
        if Self::is_ok(tail) {
            if !init.iter().all(Self::is_effect) {
                return self.un("statement before `Ok(..)` that is not an effect on `self`");
            }
            let k = self.ok_count;
            self.ok_count += 1;
            return Ok(format!("GOk {}", k));
        }
        for st in init {
            if !self.shard_let(st)? {
                return self.un("statements before an `Err(..)`, `Some(..)` or nested `if`");
            }
        }
        self.tail(tail)
    }

    fn tail(&mut self, e: &Expr) -> R<String> {
        match e {
            Expr::If(i) => {
                if has_cfg(&i.attrs) {
                    return self.un("#[cfg] on an `if`");
                }
                let c = self.cond(&i.cond)?;
                let t = self.branch(&i.then_branch.stmts)?;
                let el = match &i.else_branch {
                    Some((_, e)) => self.tail(e)?,
                    None => return self.un("`if` without `else` in tail position"),
                };
                Ok(format!("if {}\n  then {}\n  else {}", c, t, el))
            }
            Expr::Block(b) => self.branch(&b.block.stmts),
            Expr::Paren(p) => self.tail(&p.expr),
            _ => {
                if let Some(v) = self.err_value(e)? {
                    return Ok(v);
                }
                match self.opt_value(e)? {
                    Some(v) => Ok(v),
                    None => self.un("tail expression outside the guard grammar"),
                }
            }
        }
    }

    fn body(&mut self, block: &Block) -> R<String> {
        let mut pre: Vec<String> = Vec::new();
        let n = block.stmts.len();
        for (k, st) in block.stmts.iter().enumerate() {
            let last = k + 1 == n;
            match st {
                Stmt::Local(l) => {
                    if has_cfg(&l.attrs) {
                        return self.un("#[cfg] on a `let`");
                    }
                    let name = match &l.pat {
                        syn::Pat::Ident(pi) if pi.by_ref.is_none() && pi.subpat.is_none() => pi.ident.to_string(),
                        _ => return self.un("`let` with a pattern"),
                    };
                    let init = match &l.init {
                        Some(i) if i.diverge.is_none() => &*i.expr,
                        _ => return self.un("`let` without initialiser or with `else`"),
                    };
                    // `let x = x.as_ref();` keeps the name for the same bytes
                    if let Expr::MethodCall(m) = init {
                        if m.method == "as_ref" && m.args.is_empty() && path_ident(&m.receiver).as_deref() == Some(name.as_str()) {
                            continue;
                        }
                    }
                    if self.shard_let(st)? {
                        continue;
                    }
                    let v = self.sum(init)?;
                    self.locals.push(name.clone());
                    pre.push(format!("let {} := {} in", name, v));
                }
                Stmt::Expr(Expr::If(i), _) if !last => {
                    // `if cond { return Err(E); }`
                    if i.else_branch.is_some() || i.then_branch.stmts.len() != 1 {
                        return self.un("early `if` that is not `if cond { return Err(..); }`");
                    }
                    let ret = match &i.then_branch.stmts[0] {
                        Stmt::Expr(Expr::Return(r), _) => r,
                        _ => return self.un("early `if` whose body is not a `return`"),
                    };
                    let val = match &ret.expr {
                        Some(v) => v,
                        None => return self.un("bare `return`"),
                    };
                    let c = self.cond(&i.cond)?;
                    let v = match self.err_value(val)? {
                        Some(v) => v,
                        None => match self.opt_value(val)? {
                            Some(v) => v,
                            None => return self.un("early return of something other than `Err(Error::..)` or `None`"),
                        },
                    };
                    pre.push(format!("if {} then {} else", c, v));
                }
                Stmt::Expr(e, None) if last => {
                    let t = if Self::is_ok(e) {
                        let k = self.ok_count;
                        self.ok_count += 1;
                        format!("GOk {}", k)
                    } else {
                        self.tail(e)?
                    };
                    pre.push(t);
                }
                st if Self::is_effect(st) => {
                    // effects on `self` followed by the final value: the last branch
                    let t = self.branch(&block.stmts[k..])?;
                    pre.push(t);
                    break;
                }
                _ => return self.un("statement outside the guard grammar"),
            }
        }
        Ok(pre.join("\n  "))
    }
}

const JOBS: &[(&str, &str, &str, &str)] = &[
    ("rate/encoder_work.rs", "EncoderWork", "add_original_shard", "gen_enc_add"),
    ("rate/encoder_work.rs", "EncoderWork", "encode_begin", "gen_enc_begin"),
    ("rate/decoder_work.rs", "DecoderWork", "add_original_shard", "gen_dec_add_original"),
    ("rate/decoder_work.rs", "DecoderWork", "add_recovery_shard", "gen_dec_add_recovery"),
    ("rate/decoder_work.rs", "DecoderWork", "decode_begin", "gen_dec_begin"),
    ("rate/encoder_work.rs", "EncoderWork", "recovery", "gen_enc_recovery"),
    ("rate/decoder_work.rs", "DecoderWork", "restored_original", "gen_dec_restored"),
];

pub fn gen_guards(cr: &Crate, ctors: &HashMap<String, Vec<String>>) -> R<String> {
    let mut out = String::from(HEADER);
    out.push_str(
        "\n(* Decision trees of the working-space entry points: GErr e = the call returns Err(e);\n   \
         GOk k = it takes the k-th branch (in source order) that ends in Ok(..). Arguments, in this order:\n   \
         the usize fields of self that are read (alphabetical), the numeric parameters, the lengths of the\n   \
         slice parameters, and the received bitmap if it is read. *)\n\
         Inductive goutcome := GErr (e : error) | GOk (k : N) | GNone | GSome (pos len : N).\n\
         (* GNone / GSome pos len: an accessor returns None / the first len bytes of the shard at work position pos *)\n",
    );
    for (rel, ty, name, coq) in JOBS {
        let file = cr.file(rel)?;
        let (sig, block) = impl_fn(file, None, ty, name)?;
        let label = format!("{}::{}", ty, name);
        let mut sig_params = Vec::new();
        for a in &sig.inputs {
            if let syn::FnArg::Typed(pt) = a {
                match &*pt.pat {
                    syn::Pat::Ident(pi) => sig_params.push(pi.ident.to_string()),
                    _ => return unsupported("parameter pattern", rel, &label),
                }
            }
        }
        let mut g = G {
            file: rel,
            func: label.clone(),
            ctors,
            fields: BTreeSet::new(),
            params: Vec::new(),
            lens: Vec::new(),
            uses_received: false,
            locals: Vec::new(),
            sig_params,
            ok_count: 0,
            shard_locals: HashMap::new(),
        };
        let body = g.body(block)?;
        let mut args: Vec<String> = g.fields.iter().cloned().collect();
        args.extend(g.params.iter().cloned());
        args.extend(g.lens.iter().map(|n| format!("{}_len", n)));
        let mut binder = if args.is_empty() { String::new() } else { format!(" ({} : N)", args.join(" ")) };
        if g.uses_received {
            binder.push_str(" (received : N -> bool)");
        }
        out.push_str(&format!(
            "\n(* {} ({}) *)\nDefinition {}{} : goutcome :=\n  {}.\n",
            label, rel, coq, binder, body
        ));
    }
    Ok(out)
}
