//! Runs the real crate (public API) and verbatim copies of its private
//! helper functions on boundary grids and writes a Coq file that checks the
//! rs2v translation against the observed results.
//!
//! usage: rs2v-selftest <SelfTest.v>

#![allow(dead_code)]

use std::cmp::Ordering;
use std::fmt::Write as _;
use std::panic::{catch_unwind, AssertUnwindSafe};

use reed_solomon_simd::engine::{tables, GfElement, NoSimd, GF_BITS, GF_ORDER};
use reed_solomon_simd::rate::{DefaultRate, HighRate, LowRate, Rate};
use reed_solomon_simd::{Error, ReedSolomonDecoder, ReedSolomonEncoder};

include!(concat!(env!("OUT_DIR"), "/extracted.rs"));

/// what the Coq side uses for `Overflow` where the result is a number
const PANIC_N: u128 = 1u128 << 64;

fn grid_usize() -> Vec<u64> {
    let mut v: Vec<u64> = vec![0, 1, 2, 3];
    for k in 1..=16u32 {
        let p = 1u64 << k;
        v.extend([p - 1, p, p + 1]);
    }
    v.extend([65535, 65536, 65537, 61440, 61441, 4096, 4097]);
    v.extend([1u64 << 32, 1u64 << 63, (1u64 << 63) + 1, u64::MAX - 1, u64::MAX]);
    v.sort();
    v.dedup();
    v
}

fn grid_u16() -> Vec<u64> {
    let mut v: Vec<u64> = grid_usize().into_iter().filter(|&x| x <= 65535).collect();
    v.extend([32767, 32768, 65534, 65535, 255, 256]);
    v.sort();
    v.dedup();
    v
}

struct Lcg(u64);
impl Lcg {
    fn next(&mut self) -> u64 {
        self.0 = self
            .0
            .wrapping_mul(6364136223846793005)
            .wrapping_add(1442695040888963407);
        let mut z = self.0;
        z ^= z >> 33;
        z = z.wrapping_mul(0xff51afd7ed558ccd);
        z ^= z >> 33;
        z
    }
}

fn pairs_usize() -> Vec<(u64, u64)> {
    let g = grid_usize();
    let mut v = Vec::new();
    for &a in &g {
        for &b in &g {
            v.push((a, b));
        }
    }
    let mut r = Lcg(0x5eed);
    for i in 0..3000 {
        let (a, b) = (r.next(), r.next());
        v.push(match i % 4 {
            0 => (a % 70000, b % 70000),
            1 => (a % 70000, b % 5000),
            2 => (a % 5000, b % 70000),
            _ => (a >> (r.next() % 64), b >> (r.next() % 64)),
        });
    }
    v
}

fn quiet<T>(f: impl FnOnce() -> T) -> Option<T> {
    catch_unwind(AssertUnwindSafe(f)).ok()
}

fn enc_bool(r: Option<bool>) -> u128 {
    match r {
        Some(false) => 0,
        Some(true) => 1,
        None => 3,
    }
}

fn enc_rbool(k: u64, r: u64, x: Option<Result<bool, Error>>) -> u128 {
    match x {
        Some(Ok(false)) => 0,
        Some(Ok(true)) => 1,
        Some(Err(Error::UnsupportedShardCount {
            original_count,
            recovery_count,
        })) => {
            if original_count as u64 == k && recovery_count as u64 == r {
                2
            } else {
                98
            }
        }
        Some(Err(_)) => 99,
        None => 3,
    }
}

fn enc_validate(k: u64, r: u64, sb: u64, x: Option<Result<(), Error>>) -> u128 {
    match x {
        Some(Ok(())) => 0,
        Some(Err(Error::UnsupportedShardCount {
            original_count,
            recovery_count,
        })) => {
            if original_count as u64 == k && recovery_count as u64 == r {
                1
            } else {
                98
            }
        }
        Some(Err(Error::InvalidShardSize { shard_bytes })) => {
            if shard_bytes as u64 == sb {
                2
            } else {
                98
            }
        }
        Some(Err(_)) => 99,
        None => 3,
    }
}

fn enc_n(x: Option<usize>) -> u128 {
    match x {
        Some(n) => n as u128,
        None => PANIC_N,
    }
}

fn list<T: std::fmt::Display>(v: &[T]) -> String {
    // Coq's parser recurses on list literals: keep each literal short
    const CHUNK: usize = 1000;
    if v.is_empty() {
        return "[]".to_string();
    }
    let mut parts = Vec::new();
    for c in v.chunks(CHUNK) {
        let mut s = String::from("[");
        for (i, x) in c.iter().enumerate() {
            if i > 0 {
                s.push_str("; ");
            }
            if i % 16 == 15 {
                s.push('\n');
            }
            write!(s, "{}", x).unwrap();
        }
        s.push(']');
        parts.push(s);
    }
    if parts.len() == 1 {
        parts.pop().unwrap()
    } else {
        format!("({})", parts.join("\n ++ "))
    }
}

fn check(out: &mut String, name: &str, computed: &str, expected: &[u128]) {
    writeln!(
        out,
        "Definition exp_{name} : list N := {}.\nGoal first_diff 0 ({computed}) exp_{name} = None.\nProof. vm_compute. reflexivity. Qed.\n",
        list(expected)
    )
    .unwrap();
}

fn table(a: u64, b: u64) -> Box<[GfElement; GF_ORDER]> {
    let v: Vec<GfElement> = (0..GF_ORDER as u64)
        .map(|i| ((i * a + b) % 65536) as GfElement)
        .collect();
    v.into_boxed_slice().try_into().unwrap()
}

fn main() {
    let path = std::env::args().nth(1).expect("usage: rs2v-selftest <out.v>");
    std::panic::set_hook(Box::new(|_| {}));
    assert_eq!(usize::BITS, 64, "the Coq side models usize as 64 bits");
    assert_eq!(GF_BITS, 16);

    let pairs = pairs_usize();
    let mut out = String::new();
    out.push_str(
        "(* Generated by rs2v-selftest: results of the real Rust code vs the rs2v translation. *)\n\
From Coq Require Import NArith Bool List String.\n\
From RS.Gen Require Import Prelude GenConsts GenRate GenMod.\n\
Import ListNotations.\nLocal Open Scope N_scope.\n\n\
Fixpoint first_diff (i : N) (a b : list N) : option (N * N * N) :=\n\
  match a, b with\n\
  | [], [] => None\n\
  | x :: a', y :: b' => if x =? y then first_diff (i + 1) a' b' else Some (i, x, y)\n\
  | x :: _, [] => Some (i, x, 424242)\n\
  | [], y :: _ => Some (i, 424242, y)\n\
  end.\n\
Definition enc_bool (r : res bool) : N :=\n\
  match r with Val false => 0 | Val true => 1 | Overflow => 3 end.\n\
Definition enc_rbool (k r : N) (x : res (rres bool)) : N :=\n\
  match x with\n\
  | Val (ROk false) => 0 | Val (ROk true) => 1\n\
  | Val (RErr (UnsupportedShardCount a b)) => if (a =? k) && (b =? r) then 2 else 98\n\
  | Val (RErr _) => 99 | Overflow => 3 end.\n\
Definition enc_validate (k r sb : N) (x : res (rres unit)) : N :=\n\
  match x with\n\
  | Val (ROk tt) => 0\n\
  | Val (RErr (UnsupportedShardCount a b)) => if (a =? k) && (b =? r) then 1 else 98\n\
  | Val (RErr (InvalidShardSize s)) => if s =? sb then 2 else 98\n\
  | Val (RErr _) => 99 | Overflow => 3 end.\n\
Definition enc_n (x : res N) : N := match x with Val n => n | Overflow => 2 ^ 64 end.\n\
Definition enc_nn (x : res (N * N)) : N :=\n\
  match x with Val (a, b) => a * 65536 + b | Overflow => 2 ^ 64 end.\n\
Definition on_pairs {A} (ps : list (N * N)) (f : N -> N -> A) (enc : N -> N -> A -> N) : list N :=\n\
  map (fun p => enc (fst p) (snd p) (f (fst p) (snd p))) ps.\n\n",
    );
    writeln!(
        out,
        "Definition pairs : list (N * N) := {}.\n",
        list(
            &pairs
                .iter()
                .map(|(a, b)| format!("({}, {})", a, b))
                .collect::<Vec<_>>()
        )
    )
    .unwrap();

    // ---- supports, three rates + ReedSolomonEncoder/Decoder (public API)
    type E = NoSimd;
    let sup = |f: fn(usize, usize) -> bool| -> Vec<u128> {
        pairs
            .iter()
            .map(|&(a, b)| enc_bool(quiet(|| f(a as usize, b as usize))))
            .collect()
    };
    for (name, f) in [
        ("high_supports", HighRate::<E>::supports as fn(usize, usize) -> bool),
        ("low_supports", LowRate::<E>::supports),
        ("default_supports", DefaultRate::<E>::supports),
        ("rs_encoder_supports", ReedSolomonEncoder::supports),
        ("rs_decoder_supports", ReedSolomonDecoder::supports),
    ] {
        check(
            &mut out,
            name,
            &format!("on_pairs pairs {name} (fun _ _ => enc_bool)"),
            &sup(f),
        );
    }

    // ---- use_high_rate (verbatim copy of the private fn)
    let v: Vec<u128> = pairs
        .iter()
        .map(|&(a, b)| enc_rbool(a, b, quiet(|| use_high_rate(a as usize, b as usize))))
        .collect();
    check(
        &mut out,
        "use_high_rate",
        "on_pairs pairs use_high_rate enc_rbool",
        &v,
    );

    // ---- work_count x4 (verbatim copies; Self::supports is the real one)
    for (name, f) in [
        ("high_encoder_work_count", HighEnc::work_count as fn(usize, usize) -> usize),
        ("high_decoder_work_count", HighDec::work_count),
        ("low_encoder_work_count", LowEnc::work_count),
        ("low_decoder_work_count", LowDec::work_count),
    ] {
        let v: Vec<u128> = pairs
            .iter()
            .map(|&(a, b)| enc_n(quiet(|| f(a as usize, b as usize))))
            .collect();
        check(
            &mut out,
            name,
            &format!("on_pairs pairs {name} (fun _ _ => enc_n)"),
            &v,
        );
    }

    // ---- validate (public API, provided trait method)
    let sbs: Vec<u64> = vec![0, 1, 2, 3, 63, 64, 65, 1 << 32, u64::MAX - 1, u64::MAX];
    writeln!(out, "Definition sbs : list N := {}.\n", list(&sbs)).unwrap();
    out.push_str(
        "Definition on_triples (sup : N -> N -> res bool) : list N :=\n\
  flat_map (fun p => map (fun sb => enc_validate (fst p) (snd p) sb (validate sup (fst p) (snd p) sb)) sbs) pairs.\n\n",
    );
    let val = |f: fn(usize, usize, usize) -> Result<(), Error>| -> Vec<u128> {
        let mut v = Vec::new();
        for &(a, b) in &pairs {
            for &sb in &sbs {
                v.push(enc_validate(
                    a,
                    b,
                    sb,
                    quiet(|| f(a as usize, b as usize, sb as usize)),
                ));
            }
        }
        v
    };
    for (name, sup_name, f) in [
        (
            "validate_high",
            "high_supports",
            HighRate::<E>::validate as fn(usize, usize, usize) -> Result<(), Error>,
        ),
        ("validate_low", "low_supports", LowRate::<E>::validate),
        ("validate_default", "default_supports", DefaultRate::<E>::validate),
    ] {
        check(&mut out, name, &format!("on_triples {sup_name}"), &val(f));
    }

    // ---- add_mod / sub_mod / fwht_2 (verbatim copies)
    let g16 = grid_u16();
    let mut p16: Vec<(u64, u64)> = Vec::new();
    for &a in &g16 {
        for &b in &g16 {
            p16.push((a, b));
        }
    }
    let mut r = Lcg(0xfeed);
    for _ in 0..3000 {
        p16.push((r.next() % 65536, r.next() % 65536));
    }
    writeln!(
        out,
        "Definition pairs16 : list (N * N) := {}.\n",
        list(
            &p16.iter()
                .map(|(a, b)| format!("({}, {})", a, b))
                .collect::<Vec<_>>()
        )
    )
    .unwrap();
    let v: Vec<u128> = p16
        .iter()
        .map(|&(a, b)| enc_n(quiet(|| utils::add_mod(a as u16, b as u16) as usize)))
        .collect();
    check(&mut out, "add_mod", "on_pairs pairs16 add_mod (fun _ _ => enc_n)", &v);
    let v: Vec<u128> = p16
        .iter()
        .map(|&(a, b)| enc_n(quiet(|| utils::sub_mod(a as u16, b as u16) as usize)))
        .collect();
    check(&mut out, "sub_mod", "on_pairs pairs16 sub_mod (fun _ _ => enc_n)", &v);
    let v: Vec<u128> = p16
        .iter()
        .map(|&(a, b)| {
            match quiet(|| fwht_2(a as u16, b as u16)) {
                Some((s, d)) => (s as u128) * 65536 + d as u128,
                None => PANIC_N,
            }
        })
        .collect();
    check(&mut out, "fwht_2", "on_pairs pairs16 fwht_2 (fun _ _ => enc_nn)", &v);

    // ---- tables::mul (public) on synthetic tables
    let exp = table(7, 3);
    let log = table(13, 5);
    out.push_str(
        "Fixpoint mk_table (n : nat) (i a b : N) : list N :=\n\
  match n with O => [] | S n' => ((i * a + b) mod 65536) :: mk_table n' (i + 1) a b end.\n\
\n",
    );
    let gm: Vec<u64> = vec![0, 1, 2, 255, 256, 4095, 32767, 32768, 65534, 65535];
    let mut pm = Vec::new();
    for &a in &gm {
        for &b in &gm {
            pm.push((a, b));
        }
    }
    writeln!(
        out,
        "Definition pairs_mul : list (N * N) := {}.\n",
        list(
            &pm.iter()
                .map(|(a, b)| format!("({}, {})", a, b))
                .collect::<Vec<_>>()
        )
    )
    .unwrap();
    let v: Vec<u128> = pm
        .iter()
        .map(|&(a, b)| enc_n(quiet(|| tables::mul(a as u16, b as u16, &exp, &log) as usize)))
        .collect();
    check(
        &mut out,
        "mul",
        "let t_exp := mk_table (N.to_nat 65536) 0 7 3 in let t_log := mk_table (N.to_nat 65536) 0 13 5 in on_pairs pairs_mul (fun x m => mul x m t_exp t_log) (fun _ _ => enc_n)",
        &v,
    );
    // short tables: out-of-bounds reads are Overflow on the Coq side
    out.push_str(
        "Goal mul 5 0 [1; 2; 3] [1; 2; 3] = Overflow. Proof. vm_compute. reflexivity. Qed.\n\
Goal mul 0 0 [] [] = Val 0. Proof. vm_compute. reflexivity. Qed.\n",
    );

    // ---- constants
    writeln!(
        out,
        "Goal (GF_BITS, GF_ORDER, GF_MODULUS, GF_POLYNOMIAL) = ({}, {}, {}, {}). Proof. reflexivity. Qed.",
        reed_solomon_simd::engine::GF_BITS,
        reed_solomon_simd::engine::GF_ORDER,
        reed_solomon_simd::engine::GF_MODULUS,
        reed_solomon_simd::engine::GF_POLYNOMIAL
    )
    .unwrap();
    writeln!(
        out,
        "Goal CANTOR_BASIS = {}. Proof. reflexivity. Qed.",
        list(&reed_solomon_simd::engine::CANTOR_BASIS)
    )
    .unwrap();

    std::fs::write(&path, out).expect("cannot write output");
    let _ = Ordering::Less;
    println!(
        "rs2v-selftest: wrote {} ({} usize pairs, {} u16 pairs)",
        path,
        pairs.len(),
        p16.len()
    );
}
