(* C13_scale: multiplying every input symbol by a field constant multiplies every output
   symbol by the same constant — for every function that is parametric in the element
   operations (encode, decode data path, fft, ifft). *)
From Coq Require Import NArith Arith Lia Bool List.
From RS.Gen Require Import Prelude GenConsts.
From RS.Model Require Import Field Tables Sched Codec.
From RS.Proofs Require Import FieldFacts Ring Param Linear.
Import ListNotations.
Local Open Scope N_scope.

(* multiplication by g^m is field multiplication by the element exp m *)
Lemma gexp_facts m : m <= 65535 -> W16 (gexp m) /\ gexp m <> 0 /\ (m < 65535 -> glog (gexp m) = m).
Proof.
  intros Hm.
  assert (H : forallb (fun m => (gexp m <? 65536) && negb (gexp m =? 0) && ((m =? 65535) || (glog (gexp m) =? m)))
                      (rangeN 0 (N.to_nat 65536)) = true) by (vm_compute; reflexivity).
  pose proof (sweep16 _ H m ltac:(unfold W16; lia)) as Hm'. cbv beta in Hm'.
  apply andb_prop in Hm'. destruct Hm' as [Hm' H3]. apply andb_prop in Hm'. destruct Hm' as [H1 H2].
  apply N.ltb_lt in H1. apply negb_true_iff in H2. apply N.eqb_neq in H2.
  repeat split; try assumption. intros Hlt. apply orb_prop in H3. destruct H3 as [H3|H3]; apply N.eqb_eq in H3; lia.
Qed.

Lemma mul_as_fmul x m : W16 x -> m <= 65535 -> mul x m = fmul x (gexp m).
Proof.
  intros Hx Hm. destruct (gexp_facts m Hm) as (Wg & Ng & Lg).
  destruct (N.eq_dec m 65535) as [->|Hne].
  - (* g^65535 = 1 *)
    assert (E : gexp 65535 = 1) by (vm_compute; reflexivity). rewrite E, fmul_1_r by exact Hx.
    unfold mul. destruct (N.eqb_spec x 0) as [->|Hn]; [reflexivity|].
    destruct (glog_lt x Hx Hn) as [Hl He]. unfold add_mod. cbv zeta.
    destruct (N.ltb_spec (glog x + 65535) 65536) as [Hs|Hs].
    + assert (glog x = 0) as E0 by lia. rewrite E0 in *. cbn. rewrite gexp_wrap. exact He.
    + replace (glog x + 65535 - 65535) with (glog x) by lia. exact He.
  - rewrite <- (mul_glog x (gexp m) Ng). rewrite Lg by lia. reflexivity.
Qed.

Section Scale.
Variable c : N.
Hypothesis Hc : W16 c.
Definition Rsc (x y : N) : Prop := W16 x /\ y = fmul c x.

Lemma Rsc_xor a a' b b' : Rsc a a' -> Rsc b b' -> Rsc (xorT sym_ops a b) (xorT sym_ops a' b').
Proof. intros [Wa ->] [Wb ->]. cbn. split; [apply W16_lxor; assumption|]. symmetry. apply fmul_lxor_r; assumption. Qed.
Lemma Rsc_mul a a' m : okm m -> Rsc a a' -> Rsc (mulT sym_ops a m) (mulT sym_ops a' m).
Proof.
  intros Hm [Wa ->]. cbn. split; [apply mul_lt; assumption|].
  destruct (gexp_facts m Hm) as (Wg & _ & _).
  rewrite !mul_as_fmul; try assumption; [|apply fmul_lt; assumption].
  apply fmul_assoc; assumption.
Qed.
Lemma Rsc_zero : Rsc (zeroT sym_ops) (zeroT sym_ops).
Proof. cbn. split; [apply W16_0|]. reflexivity. Qed.

Lemma Rsc_map w : Forall W16 w -> Forall2 Rsc w (map (fmul c) w).
Proof. induction 1; cbn; constructor; [split; auto|assumption]. Qed.
Lemma Rsc_out a b : Forall2 Rsc a b -> b = map (fmul c) a.
Proof. induction 1 as [|x y l l' [_ ->] _ IH]; cbn; [reflexivity|]. rewrite IH. reflexivity. Qed.

Theorem encode_high_scale e K R w : Forall W16 w ->
  encode_high sym_ops e K R (map (fmul c) w) = map (fmul c) (encode_high sym_ops e K R w).
Proof.
  intros Hw. apply Rsc_out. apply (RL_encode_high sym_ops sym_ops Rsc Rsc_xor Rsc_mul Rsc_zero). apply Rsc_map, Hw.
Qed.
Theorem encode_low_scale e K R w : Forall W16 w ->
  encode_low sym_ops e K R (map (fmul c) w) = map (fmul c) (encode_low sym_ops e K R w).
Proof.
  intros Hw. apply Rsc_out. apply (RL_encode_low sym_ops sym_ops Rsc Rsc_xor Rsc_mul Rsc_zero). apply Rsc_map, Hw.
Qed.
Theorem fft_scale e size trunc sd w : Forall W16 w ->
  fft sym_ops e size trunc sd (map (fmul c) w) = map (fmul c) (fft sym_ops e size trunc sd w).
Proof.
  intros Hw. apply Rsc_out. apply (RL_fft sym_ops sym_ops Rsc Rsc_xor Rsc_mul). apply Rsc_map, Hw.
Qed.
End Scale.
