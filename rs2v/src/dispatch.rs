//! GenDispatch.v: feature-dispatch chains of DefaultEngine, delegation,
//! target_feature entry points and trait-method call lists of the SIMD engines.

use std::collections::BTreeSet;

use syn::{Block, Expr, ImplItem, Item, Stmt};

use crate::gen::{args_are, impl_fn, impls_of, param_names, single_expr, HEADER};
use crate::scan::{expr_attrs, Scan};
use crate::util::*;

const FILE: &str = "engine/engine_default.rs";

struct Chain {
    entries: Vec<(String, String, String)>,
    fallback: String,
}

/// `is_x86_feature_detected!("f")` / `std::arch::is_aarch64_feature_detected!("f")`
/// -> (arch family of the macro, feature)
fn feature_macro(e: &Expr, func: &str) -> R<(String, String)> {
    let e = match e {
        Expr::Paren(p) => &*p.expr,
        e => e,
    };
    let m = match e {
        Expr::Macro(m) if !has_cfg(&m.attrs) => m,
        _ => {
            return unsupported(
                format!("dispatch condition `{}`", tokens_text(e)),
                FILE,
                func,
            )
        }
    };
    let ids = path_idents(&m.mac.path);
    let name = match ids.as_slice() {
        [n] => n.clone(),
        [a, b, n] if a == "std" && b == "arch" => n.clone(),
        [a, b, n] if a == "core" && b == "arch" => n.clone(),
        _ => {
            return unsupported(
                format!("dispatch macro `{}!`", ids.join("::")),
                FILE,
                func,
            )
        }
    };
    let arch = match name.as_str() {
        "is_x86_feature_detected" => "x86",
        "is_aarch64_feature_detected" => "aarch64",
        _ => return unsupported(format!("dispatch macro `{}!`", name), FILE, func),
    };
    let lit: syn::LitStr = m.mac.parse_body().map_err(|_| {
        Error::Unsupported(format!(
            "argument of `{}!` is not a string literal at {}:{}",
            name, FILE, func
        ))
    })?;
    Ok((arch.to_string(), lit.value()))
}

/// `Self(Box::new(Eng::new()))` -> "Eng"
fn boxed_engine(e: &Expr) -> Option<String> {
    let c = match e {
        Expr::Call(c) => c,
        _ => return None,
    };
    match &*c.func {
        Expr::Path(p) if p.path.is_ident("Self") => {}
        _ => return None,
    }
    if c.args.len() != 1 {
        return None;
    }
    let b = match &c.args[0] {
        Expr::Call(b) => b,
        _ => return None,
    };
    match &*b.func {
        Expr::Path(p) if path_idents(&p.path) == ["Box", "new"] => {}
        _ => return None,
    }
    if b.args.len() != 1 {
        return None;
    }
    let n = match &b.args[0] {
        Expr::Call(n) if n.args.is_empty() => n,
        _ => return None,
    };
    match &*n.func {
        Expr::Path(p) => {
            let ids = path_idents(&p.path);
            if ids.len() == 2 && ids[1] == "new" && p.path.segments[0].arguments.is_empty() {
                Some(ids[0].clone())
            } else {
                None
            }
        }
        _ => None,
    }
}

/// `Eng::eval_poly(<params>)` -> "Eng"
fn static_forward(e: &Expr, method: &str, params: &[String]) -> Option<String> {
    let c = match e {
        Expr::Call(c) => c,
        _ => return None,
    };
    match &*c.func {
        Expr::Path(p) if p.qself.is_none() => {
            let ids = path_idents(&p.path);
            if ids.len() == 2
                && ids[1] == method
                && p.path.segments.iter().all(|s| s.arguments.is_empty())
                && args_are(&c.args, params)
            {
                Some(ids[0].clone())
            } else {
                None
            }
        }
        _ => None,
    }
}

fn live_stmts(block: &Block) -> Vec<&Stmt> {
    block
        .stmts
        .iter()
        .filter(|s| match s {
            Stmt::Local(l) => !is_hook(&l.attrs),
            Stmt::Macro(m) => !is_hook(&m.attrs),
            Stmt::Expr(e, _) => !is_hook(expr_attrs(e)),
            Stmt::Item(_) => true,
        })
        .collect()
}

/// Parses the body shape shared by `new` and `eval_poly`.
/// `engine_of(expr, is_return)` extracts the engine from the returned /
/// final expression.
fn parse_chain(block: &Block, func: &str, engine_of: &dyn Fn(&Expr) -> Option<String>) -> R<Chain> {
    let stmts = live_stmts(block);
    let mut entries = Vec::new();
    let mut fallback: Option<String> = None;
    let n = stmts.len();
    for (i, st) in stmts.iter().enumerate() {
        let last = i + 1 == n;
        let e = match st {
            Stmt::Expr(e, _) => e,
            _ => return unsupported("statement in dispatch function", FILE, func),
        };
        match e {
            Expr::Block(b) if !last => {
                let arch = match arch_of_cfg(&b.attrs) {
                    Some(Ok(a)) => a,
                    Some(Err(what)) => {
                        return unsupported(format!("dispatch block under {}", what), FILE, func)
                    }
                    None => return unsupported("dispatch block without #[cfg(target_arch)]", FILE, func),
                };
                if b.label.is_some() {
                    return unsupported("labelled block", FILE, func);
                }
                for inner in live_stmts(&b.block) {
                    let ifx = match inner {
                        Stmt::Expr(Expr::If(ifx), _) if !has_cfg(&ifx.attrs) => ifx,
                        _ => {
                            return unsupported(
                                "statement other than `if <feature detected> { return .. }` in dispatch block",
                                FILE,
                                func,
                            )
                        }
                    };
                    if ifx.else_branch.is_some() {
                        return unsupported("`else` in dispatch chain", FILE, func);
                    }
                    let (march, feat) = feature_macro(&ifx.cond, func)?;
                    if march != arch {
                        return unsupported(
                            format!("{} feature test inside a {} block", march, arch),
                            FILE,
                            func,
                        );
                    }
                    let body = live_stmts(&ifx.then_branch);
                    let eng = match body.as_slice() {
                        [Stmt::Expr(Expr::Return(r), _)] if !has_cfg(&r.attrs) => {
                            r.expr.as_ref().and_then(|x| engine_of(x))
                        }
                        _ => None,
                    };
                    match eng {
                        Some(eng) => entries.push((arch.clone(), feat, eng)),
                        None => {
                            return unsupported(
                                "dispatch branch that is not a single `return <engine ..>;`",
                                FILE,
                                func,
                            )
                        }
                    }
                }
            }
            _ if last => {
                if has_cfg(expr_attrs(e)) {
                    return unsupported("#[cfg] on the fallback", FILE, func);
                }
                let e = match e {
                    Expr::Return(r) => match &r.expr {
                        Some(x) => &**x,
                        None => return unsupported("fallback `return;`", FILE, func),
                    },
                    e => e,
                };
                fallback = engine_of(e);
                if fallback.is_none() {
                    return unsupported(
                        format!("fallback expression `{}`", tokens_text(e)),
                        FILE,
                        func,
                    );
                }
            }
            _ => {
                return unsupported(
                    format!("statement `{}` in dispatch function", tokens_text(e)),
                    FILE,
                    func,
                )
            }
        }
    }
    match fallback {
        Some(fallback) => Ok(Chain { entries, fallback }),
        None => unsupported("dispatch function without fallback", FILE, func),
    }
}

fn triple(a: &str, b: &str, c: &str) -> String {
    format!("({}, {}, {})", coq_str(a), coq_str(b), coq_str(c))
}

fn neon_intrinsic(s: &str) -> bool {
    // v[a-z0-9]+q?_[a-z0-9_]+
    let b = s.as_bytes();
    if b.len() < 4 || b[0] != b'v' {
        return false;
    }
    if !s
        .chars()
        .all(|c| c.is_ascii_lowercase() || c.is_ascii_digit() || c == '_')
    {
        return false;
    }
    match s.find('_') {
        Some(i) => i >= 2 && i + 1 < s.len(),
        None => false,
    }
}

pub fn gen_dispatch(cr: &Crate) -> R<String> {
    let file = cr.file(FILE)?;
    let mut out = String::from(HEADER);
    out.push('\n');

    // a feature-detection macro redefined outside the verification hooks
    // would change what the chains mean
    for it in &file.ast.items {
        if let Item::Macro(m) = it {
            if !is_hook(&m.attrs) {
                return unsupported(
                    format!(
                        "macro item `{}` outside verif-hooks",
                        m.ident
                            .as_ref()
                            .map(|i| i.to_string())
                            .unwrap_or_else(|| path_idents(&m.mac.path).join("::"))
                    ),
                    FILE,
                    "-",
                );
            }
        }
    }

    // DefaultEngine::new
    let (_sig, block) = impl_fn(file, None, "DefaultEngine", "new")?;
    let new_chain = parse_chain(block, "DefaultEngine::new", &boxed_engine)?;

    // <DefaultEngine as Engine>::eval_poly
    let (sig, block) = impl_fn(file, Some("Engine"), "DefaultEngine", "eval_poly")?;
    let params = match param_names(sig) {
        Some(p) => p,
        None => return unsupported("parameter pattern", FILE, "DefaultEngine::eval_poly"),
    };
    let fwd = |e: &Expr| static_forward(e, "eval_poly", &params);
    let ep_chain = parse_chain(block, "DefaultEngine::eval_poly", &fwd)?;

    for (name, ch) in [("new", &new_chain), ("evalpoly", &ep_chain)] {
        let items: Vec<String> = ch
            .entries
            .iter()
            .map(|(a, f, e)| triple(a, f, e))
            .collect();
        out.push_str(&format!(
            "Definition {}_chain : list (string * string * string) :=\n{}.\n",
            name,
            coq_list_lines(&items)
        ));
        out.push_str(&format!(
            "Definition {}_fallback : string := {}.\n\n",
            name,
            coq_str(&ch.fallback)
        ));
    }

    // delegation of fft / ifft / mul to self.0
    let mut deleg = Vec::new();
    for m in ["fft", "ifft", "mul"] {
        let (sig, block) = impl_fn(file, Some("Engine"), "DefaultEngine", m)?;
        let names = param_names(sig).unwrap_or_default();
        let ok = match single_expr(block) {
            Some(Expr::MethodCall(mc)) => {
                let recv_ok = match &*mc.receiver {
                    Expr::Field(f) => {
                        matches!(&*f.base, Expr::Path(p) if p.path.is_ident("self"))
                            && matches!(&f.member, syn::Member::Unnamed(i) if i.index == 0)
                    }
                    _ => false,
                };
                recv_ok && mc.method == m && mc.turbofish.is_none() && args_are(&mc.args, &names)
            }
            _ => false,
        };
        deleg.push(format!("({}, {})", coq_str(m), ok));
    }
    out.push_str(&format!(
        "Definition delegation : list (string * bool) :=\n{}.\n\n",
        coq_list_lines(&deleg)
    ));

    // SIMD engines
    let engines = [
        ("Avx2", "engine/engine_avx2.rs", false),
        ("Ssse3", "engine/engine_ssse3.rs", false),
        ("Neon", "engine/engine_neon.rs", true),
    ];
    let mut entry_points = Vec::new();
    let mut trait_calls = Vec::new();
    let mut intrinsics = Vec::new();
    for (eng, path, is_neon) in engines {
        let f = cr.file(path)?;
        let scan = Scan::of_file(&f.ast);
        for (name, feat) in &scan.target_features {
            entry_points.push(triple(eng, name, feat));
        }
        // trait methods
        let ims = impls_of(f, Some("Engine"), eng);
        if ims.len() != 1 {
            return unsupported(format!("expected one `impl Engine for {}`", eng), path, eng);
        }
        if has_cfg(&ims[0].attrs) {
            return unsupported("#[cfg] on the impl block", path, eng);
        }
        for m in ["fft", "ifft", "mul", "eval_poly"] {
            let mut found = None;
            for ii in &ims[0].items {
                if let ImplItem::Fn(g) = ii {
                    if g.sig.ident == m {
                        if has_cfg(&g.attrs) {
                            return unsupported("#[cfg] on a trait method", path, m);
                        }
                        if found.is_some() {
                            return unsupported("duplicate trait method", path, m);
                        }
                        found = Some(g);
                    }
                }
            }
            let g = match found {
                Some(g) => g,
                None => {
                    return unsupported(
                        format!("`impl Engine for {}` lacks `{}` (default method?)", eng, m),
                        path,
                        m,
                    )
                }
            };
            let s = Scan::of_block(&g.block);
            let mut names: Vec<String> = Vec::new();
            for (callee, is_self) in &s.ordered_calls {
                let name = if *is_self {
                    callee.trim_start_matches("Self::").to_string()
                } else if let Some(rest) = callee.strip_prefix(&format!("{}::", eng)) {
                    if rest.contains("::") {
                        callee.clone()
                    } else {
                        rest.to_string()
                    }
                } else {
                    // call into something that is not this engine: keep it
                    // visible, fully qualified as written
                    callee.clone()
                };
                if !names.contains(&name) {
                    names.push(name);
                }
            }
            // calls hidden in macro arguments cannot be classified
            if !s.macro_calls.is_empty() {
                for c in &s.macro_calls {
                    let name = format!("macro:{}", c);
                    if !names.contains(&name) {
                        names.push(name);
                    }
                }
            }
            trait_calls.push(format!(
                "({}, {}, {})",
                coq_str(eng),
                coq_str(m),
                coq_str_list(&names)
            ));
        }
        // intrinsics
        let mut set: BTreeSet<String> = BTreeSet::new();
        for c in &scan.calls {
            if let Some(last) = c.last() {
                let hit = if is_neon {
                    neon_intrinsic(last)
                } else {
                    last.starts_with("_mm256_") || last.starts_with("_mm_") || last.starts_with("_mm512_")
                };
                if hit {
                    set.insert(last.clone());
                }
            }
        }
        let v: Vec<String> = set.into_iter().collect();
        intrinsics.push(format!("({}, {})", coq_str(eng), coq_str_list(&v)));
    }
    out.push_str(&format!(
        "Definition entry_points : list (string * string * string) :=\n{}.\n\n",
        coq_list_lines(&entry_points)
    ));
    out.push_str(&format!(
        "Definition trait_calls : list (string * string * list string) :=\n{}.\n\n",
        coq_list_lines(&trait_calls)
    ));
    out.push_str(&format!(
        "Definition intrinsics : list (string * list string) :=\n{}.\n",
        coq_list_lines(&intrinsics)
    ));
    Ok(out)
}
