(* C03: the SIMD multiply kernels (SSSE3 pshufb/psrlq, AVX2 lane-local vpshufb on a broadcast
   LUT, Neon vqtbl1q/vshrq) compute, for EVERY 64-byte block and every multiplier, exactly what
   the portable nibble-table kernel computes, hence the field multiplication of every lane. *)
From Coq Require Import NArith Arith Lia Bool List.
From RS.Gen Require Import Prelude GenConsts.
From RS.Model Require Import Field Tables Sched Layout Kernels.
From RS.Proofs Require Import FieldFacts Linear SchedEquiv.
Import ListNotations.
Local Open Scope N_scope.

(* ---------- vectors as maps over one index list ---------- *)
Lemma map2_map {A B C D} (f : B -> C -> D) (g : A -> B) (h : A -> C) (l : list A) :
  map2 f (map g l) (map h l) = map (fun x => f (g x) (h x)) l.
Proof. unfold map2. induction l as [|x l IH]; cbn; [reflexivity|]. f_equal. exact IH. Qed.
Lemma map2_repeat {A B C D} (f : B -> C -> D) (g : A -> B) (c : C) (l : list A) :
  map2 f (map g l) (repeat c (length l)) = map (fun x => f (g x) c) l.
Proof. unfold map2. induction l as [|x l IH]; cbn; [reflexivity|]. f_equal. exact IH. Qed.
Lemma vand_map {A} (g : A -> N) c (l : list A) n : n = length l ->
  vand (map g l) (vset1 n c) = map (fun x => N.land (g x) c) l.
Proof. intros ->. apply map2_repeat. Qed.
Lemma vxor_map {A} (g h : A -> N) (l : list A) : vxor (map g l) (map h l) = map (fun x => N.lxor (g x) (h x)) l.
Proof. apply map2_map. Qed.
Lemma pshufb_map {A} (t : vec) (g : A -> N) (l : list A) :
  pshufb t (map g l) = map (fun x => if N.testbit (g x) 7 then 0 else nthb t (N.land (g x) 15)) l.
Proof. unfold pshufb. apply map_map. Qed.
Lemma vqtbl_map {A} (t : vec) (g : A -> N) (l : list A) :
  vqtbl1q t (map g l) = map (fun x => if g x <? 16 then nthb t (g x) else 0) l.
Proof. unfold vqtbl1q. apply map_map. Qed.
Lemma vshrq_map {A} (g : A -> N) s (l : list A) : vshrq_n (map g l) s = map (fun x => N.shiftr (g x) s) l.
Proof. unfold vshrq_n. apply map_map. Qed.

(* ---------- psrlq 4 then pand 0x0f = high nibble of every byte ---------- *)
Lemma land255 x : N.land x 255 = x mod 256.
Proof. change 255 with (N.ones 8). rewrite N.land_ones. reflexivity. Qed.
Lemma land15 x : N.land x 15 = x mod 16.
Proof. change 15 with (N.ones 4). rewrite N.land_ones. reflexivity. Qed.
Lemma shr4 x : N.shiftr x 4 = x / 16.
Proof. rewrite N.shiftr_div_pow2. reflexivity. Qed.
Lemma shr8 x : N.shiftr x 8 = x / 256.
Proof. rewrite N.shiftr_div_pow2. reflexivity. Qed.

Lemma nib_step b y : b < 256 -> (b + 256 * y) / 16 / 256 = y / 16.
Proof. intros Hb. rewrite N.div_div by lia. change (16 * 256) with (256 * 16). rewrite <- N.div_div by lia.
  replace (b + 256 * y) with (b + y * 256) by lia. rewrite N.div_add by lia. rewrite (N.div_small b 256) by exact Hb. reflexivity. Qed.
Lemma nib_out b y : b < 256 -> ((b + 256 * y) / 16) mod 256 mod 16 = b / 16.
Proof.
  intros Hb. replace (b + 256 * y) with (b + (16 * y) * 16) by lia. rewrite N.div_add by lia.
  assert (H : b / 16 < 16) by (apply N.div_lt_upper_bound; lia).
  change 256 with (16 * 16) at 1. rewrite N.mod_mul_r by lia.
  replace (b / 16 + 16 * y) with (b / 16 + y * 16) by lia. rewrite N.mod_add by lia. rewrite (N.mod_small (b / 16) 16) by exact H.
  replace (b / 16 + 16 * (((b / 16 + y * 16) / 16) mod 16)) with (b / 16 + (((b / 16 + y * 16) / 16) mod 16) * 16) by lia.
  rewrite N.mod_add by lia. apply N.mod_small. exact H.
Qed.

Lemma lane_nibbles b0 b1 b2 b3 b4 b5 b6 b7 :
  b0 < 256 -> b1 < 256 -> b2 < 256 -> b3 < 256 -> b4 < 256 -> b5 < 256 -> b6 < 256 -> b7 < 256 ->
  map2 N.land (bytes_of 8 (N.shiftr (word_of [b0; b1; b2; b3; b4; b5; b6; b7]) 4)) (repeat 15 8) =
  map (fun x => N.shiftr x 4) [b0; b1; b2; b3; b4; b5; b6; b7].
Proof.
  intros H0 H1 H2 H3 H4 H5 H6 H7. unfold map2. cbn [word_of bytes_of repeat combine map fst snd].
  rewrite !land255, !land15, !shr8, !shr4.
  rewrite !nib_step by assumption. rewrite !nib_out by assumption. reflexivity.
Qed.

Lemma combine_app' {A B} : forall (a c : list A) (b d : list B), length a = length b ->
  combine (a ++ c) (b ++ d) = combine a b ++ combine c d.
Proof. induction a as [|x a IH]; intros c [|y b] d H; cbn in *; try discriminate; [reflexivity|]. f_equal. apply IH. lia. Qed.

Lemma srli4_nibbles lanes : forall v, length v = (8 * lanes)%nat -> Forall byte v ->
  vand (srli_epi64 lanes v 4) (vset1 (8 * lanes) 15) = map (fun x => N.shiftr x 4) v.
Proof.
  induction lanes as [|n IH]; intros v Hl Hb.
  - destruct v; [reflexivity|discriminate].
  - cbn [srli_epi64].
    destruct v as [|b0 [|b1 [|b2 [|b3 [|b4 [|b5 [|b6 [|b7 v]]]]]]]]; try (cbn in Hl; lia).
    repeat match goal with H : Forall byte (_ :: _) |- _ => inversion H; clear H; subst end.
    cbn [firstn skipn]. unfold vand, vset1. replace (8 * S n)%nat with (8 + 8 * n)%nat by lia.
    rewrite repeat_app. unfold map2.
    assert (L : length (bytes_of 8 (N.shiftr (word_of [b0; b1; b2; b3; b4; b5; b6; b7]) 4)) = 8%nat) by reflexivity.
    rewrite combine_app' by (rewrite L; reflexivity). rewrite map_app.
    change (map (fun x : N => N.shiftr x 4) (b0 :: b1 :: b2 :: b3 :: b4 :: b5 :: b6 :: b7 :: v))
      with (map (fun x : N => N.shiftr x 4) [b0; b1; b2; b3; b4; b5; b6; b7] ++ map (fun x : N => N.shiftr x 4) v).
    f_equal.
    + apply (lane_nibbles b0 b1 b2 b3 b4 b5 b6 b7); assumption.
    + apply (IH v); [cbn in Hl; lia|assumption].
Qed.

(* ---------- table entries and small indexes ---------- *)
Lemma nth_rangeN' : forall n a v, (v < n)%nat -> nth v (rangeN a n) 0 = a + N.of_nat v.
Proof.
  induction n as [|n IH]; intros a v Hv; [lia|]. cbn [rangeN]. destruct v as [|v]; [cbn; lia|].
  cbn [nth]. rewrite IH by lia. lia.
Qed.
Lemma nth_map_lt' {A B} (f : A -> B) d d' : forall (l : list A) v, (v < length l)%nat -> nth v (map f l) d' = f (nth v l d).
Proof. induction l as [|x l IH]; intros v Hv; [cbn in Hv; lia|]. destruct v; [reflexivity|]. cbn. apply IH. cbn in Hv. lia. Qed.
Lemma rangeN_len n : forall a, length (rangeN a n) = n.
Proof. induction n as [|n IH]; intros a; cbn; [reflexivity|]. rewrite IH. reflexivity. Qed.

Lemma tbl_lo m k j : j < 16 -> nthb (mul128_lo m k) j = lo_byte (mul16 m k j).
Proof.
  intros Hj. unfold nthb, mul128_lo, range. change (N.to_nat (16 - 0)) with 16%nat.
  rewrite (nth_map_lt' _ 0) by (rewrite rangeN_len; lia). rewrite nth_rangeN' by lia. rewrite N2Nat.id. reflexivity.
Qed.
Lemma tbl_hi m k j : j < 16 -> nthb (mul128_hi m k) j = hi_byte (mul16 m k j).
Proof.
  intros Hj. unfold nthb, mul128_hi, range. change (N.to_nat (16 - 0)) with 16%nat.
  rewrite (nth_map_lt' _ 0) by (rewrite rangeN_len; lia). rewrite nth_rangeN' by lia. rewrite N2Nat.id. reflexivity.
Qed.
Lemma tbl_len_lo m k : length (mul128_lo m k) = 16%nat. Proof. reflexivity. Qed.
Lemma tbl_len_hi m k : length (mul128_hi m k) = 16%nat. Proof. reflexivity. Qed.

Lemma small_idx x : x < 16 -> N.testbit x 7 = false /\ N.land x 15 = x /\ (x <? 16) = true.
Proof.
  intros Hx.
  assert (H : forallb (fun x => negb (N.testbit x 7) && (N.land x 15 =? x)) (rangeN 0 16) = true) by (vm_compute; reflexivity).
  pose proof (forallb_rangeN _ _ _ H x ltac:(cbn; lia)) as Hx'. cbv beta in Hx'.
  apply andb_prop in Hx'. destruct Hx' as [A B]. apply negb_true_iff in A. apply N.eqb_eq in B.
  repeat split; try assumption. apply N.ltb_lt. exact Hx.
Qed.
Lemma nib_lo_lt x : N.land x 15 < 16.
Proof. rewrite land15. apply N.mod_lt. lia. Qed.
Lemma nib_hi_lt x : x < 256 -> N.shiftr x 4 < 16.
Proof. intros H. rewrite shr4. apply N.div_lt_upper_bound; lia. Qed.

Lemma lo_byte_lxor a b : lo_byte (N.lxor a b) = N.lxor (lo_byte a) (lo_byte b).
Proof. unfold lo_byte. apply N.bits_inj. intros n. rewrite !N.land_spec, !N.lxor_spec, !N.land_spec. destruct (N.testbit a n), (N.testbit b n), (N.testbit 255 n); reflexivity. Qed.
Lemma hi_byte_lxor a b : hi_byte (N.lxor a b) = N.lxor (hi_byte a) (hi_byte b).
Proof. unfold hi_byte. apply N.shiftr_lxor. Qed.

Definition Flo (m : N) (p : N * N) : N := lo_byte (nosimd_prod m (fst p) (snd p)).
Definition Fhi (m : N) (p : N * N) : N := hi_byte (nosimd_prod m (fst p) (snd p)).
Definition bytes2 (p : N * N) : Prop := fst p < 256 /\ snd p < 256.

(* ---------- SSSE3 ---------- *)
Lemma mul_128_spec m (P : list (N * N)) : length P = 16%nat -> Forall bytes2 P ->
  mul_128 m (map fst P) (map snd P) = (map (Flo m) P, map (Fhi m) P).
Proof.
  intros HL HB. unfold mul_128. cbv zeta. cbn [fst snd].
  assert (B1 : Forall byte (map fst P)) by (apply Forall_forall; intros x Hx; apply in_map_iff in Hx; destruct Hx as (p & <- & Hp); rewrite Forall_forall in HB; apply (HB p Hp)).
  assert (B2 : Forall byte (map snd P)) by (apply Forall_forall; intros x Hx; apply in_map_iff in Hx; destruct Hx as (p & <- & Hp); rewrite Forall_forall in HB; apply (HB p Hp)).
  change 16%nat with (8 * 2)%nat.
  rewrite !srli4_nibbles by (try assumption; rewrite map_length; exact HL).
  rewrite !(vand_map _ 15 P) by (rewrite HL; reflexivity).
  rewrite !map_map. rewrite !pshufb_map. rewrite !vxor_map.
  f_equal; apply map_ext_in; intros [l h] Hin; rewrite Forall_forall in HB; destruct (HB _ Hin) as [Hl Hh]; cbn [fst snd] in *;
    destruct (small_idx _ (nib_lo_lt l)) as (A1 & A2 & _); destruct (small_idx _ (nib_lo_lt h)) as (A3 & A4 & _);
    destruct (small_idx _ (nib_hi_lt l Hl)) as (A5 & A6 & _); destruct (small_idx _ (nib_hi_lt h Hh)) as (A7 & A8 & _);
    rewrite A1, A2, A3, A4, A5, A6, A7, A8.
  - unfold Flo, nosimd_prod. cbn [fst snd]. rewrite !lo_byte_lxor.
    rewrite !tbl_lo by (try apply nib_lo_lt; apply nib_hi_lt; assumption). reflexivity.
  - unfold Fhi, nosimd_prod. cbn [fst snd]. rewrite !hi_byte_lxor.
    rewrite !tbl_hi by (try apply nib_lo_lt; apply nib_hi_lt; assumption). reflexivity.
Qed.

(* ---------- blocks ---------- *)
Lemma map_fst_combine {A B} : forall (a : list A) (b : list B), length a = length b -> map fst (combine a b) = a.
Proof. induction a as [|x a IH]; intros [|y b] H; cbn in *; try discriminate; [reflexivity|]. f_equal. apply IH. lia. Qed.
Lemma map_snd_combine {A B} : forall (a : list A) (b : list B), length a = length b -> map snd (combine a b) = b.
Proof. induction a as [|x a IH]; intros [|y b] H; cbn in *; try discriminate; [reflexivity|]. f_equal. apply IH. lia. Qed.
Lemma bytes2_combine a b : Forall byte a -> Forall byte b -> Forall bytes2 (combine a b).
Proof.
  intros Ha. revert b. induction Ha as [|x a Hx _ IH]; intros b Hb; [constructor|].
  destruct Hb as [|y b Hy Hb]; [constructor|]. cbn. constructor; [split; assumption|apply IH; assumption].
Qed.

Lemma nosimd_block_form m b : length b = 64%nat ->
  nosimd_mul_block m b =
  map (Flo m) (combine (firstn 32 b) (skipn 32 b)) ++ map (Fhi m) (combine (firstn 32 b) (skipn 32 b)).
Proof. intros Hl. unfold nosimd_mul_block, map2. cbv zeta. rewrite !map_map. reflexivity. Qed.

Lemma quarter_split (b : list N) : length b = 64%nat ->
  firstn 32 b = firstn 16 b ++ firstn 16 (skipn 16 b) /\ skipn 32 b = firstn 16 (skipn 32 b) ++ skipn 48 b.
Proof.
  intros Hl. split.
  - change 32%nat with (16 + 16)%nat. rewrite firstn_add. reflexivity.
  - rewrite <- (firstn_skipn 16 (skipn 32 b)) at 1. f_equal. rewrite <- skipn_add. reflexivity.
Qed.

Theorem ssse3_mul_block_nosimd m b : length b = 64%nat -> Forall byte b ->
  ssse3_mul_block m b = nosimd_mul_block m b.
Proof.
  intros Hl Hb. rewrite nosimd_block_form by exact Hl. destruct (quarter_split b Hl) as [E1 E2]. rewrite E1, E2.
  unfold ssse3_mul_block. cbv zeta.
  set (a0 := firstn 16 b). set (a1 := firstn 16 (skipn 16 b)). set (h0 := firstn 16 (skipn 32 b)). set (h1 := skipn 48 b).
  assert (L0 : length a0 = 16%nat) by (unfold a0; rewrite firstn_length; lia).
  assert (L1 : length a1 = 16%nat) by (unfold a1; rewrite firstn_length, skipn_length; lia).
  assert (L2 : length h0 = 16%nat) by (unfold h0; rewrite firstn_length, skipn_length; lia).
  assert (L3 : length h1 = 16%nat) by (unfold h1; rewrite skipn_length; lia).
  assert (B0 : Forall byte a0) by (apply Forall_firstn; exact Hb).
  assert (B1 : Forall byte a1) by (apply Forall_firstn, Forall_skipn; exact Hb).
  assert (B2 : Forall byte h0) by (apply Forall_firstn, Forall_skipn; exact Hb).
  assert (B3 : Forall byte h1) by (apply Forall_skipn; exact Hb).
  rewrite <- (map_fst_combine a0 h0) at 1 by lia. rewrite <- (map_snd_combine a0 h0) at 2 by lia.
  rewrite mul_128_spec by (try (rewrite combine_length; lia); apply bytes2_combine; assumption).
  rewrite <- (map_fst_combine a1 h1) at 1 by lia. rewrite <- (map_snd_combine a1 h1) at 2 by lia.
  rewrite mul_128_spec by (try (rewrite combine_length; lia); apply bytes2_combine; assumption).
  rewrite combine_app' by lia. rewrite !map_app, <- !app_assoc. reflexivity.
Qed.

(* ---------- AVX2: vpshufb on a broadcast table is pshufb on the table ---------- *)
Lemma pshufb_app t a b : pshufb t (a ++ b) = pshufb t a ++ pshufb t b.
Proof. unfold pshufb. apply map_app. Qed.
Lemma vpshufb_bcast t idx : length t = 16%nat -> vpshufb (bcast t) idx = pshufb t idx.
Proof.
  intros Ht. unfold vpshufb, bcast.
  rewrite firstn_app_le' by lia. rewrite firstn_all2 by lia.
  rewrite skipn_app_le' by lia. rewrite skipn_all2 by lia. cbn [app].
  rewrite <- pshufb_app, firstn_skipn. reflexivity.
Qed.

Lemma mul_256_spec m (P : list (N * N)) : length P = 32%nat -> Forall bytes2 P ->
  mul_256 m (map fst P) (map snd P) = (map (Flo m) P, map (Fhi m) P).
Proof.
  intros HL HB. unfold mul_256. cbv zeta. cbn [fst snd].
  assert (B1 : Forall byte (map fst P)) by (apply Forall_forall; intros x Hx; apply in_map_iff in Hx; destruct Hx as (p & <- & Hp); rewrite Forall_forall in HB; apply (HB p Hp)).
  assert (B2 : Forall byte (map snd P)) by (apply Forall_forall; intros x Hx; apply in_map_iff in Hx; destruct Hx as (p & <- & Hp); rewrite Forall_forall in HB; apply (HB p Hp)).
  rewrite !vpshufb_bcast by reflexivity.
  change 32%nat with (8 * 4)%nat.
  rewrite !srli4_nibbles by (try assumption; rewrite map_length; exact HL).
  rewrite !(vand_map _ 15 P) by (rewrite HL; reflexivity).
  rewrite !map_map. rewrite !pshufb_map. rewrite !vxor_map.
  f_equal; apply map_ext_in; intros [l h] Hin; rewrite Forall_forall in HB; destruct (HB _ Hin) as [Hl Hh]; cbn [fst snd] in *;
    destruct (small_idx _ (nib_lo_lt l)) as (A1 & A2 & _); destruct (small_idx _ (nib_lo_lt h)) as (A3 & A4 & _);
    destruct (small_idx _ (nib_hi_lt l Hl)) as (A5 & A6 & _); destruct (small_idx _ (nib_hi_lt h Hh)) as (A7 & A8 & _);
    rewrite A1, A2, A3, A4, A5, A6, A7, A8.
  - unfold Flo, nosimd_prod. cbn [fst snd]. rewrite !lo_byte_lxor.
    rewrite !tbl_lo by (try apply nib_lo_lt; apply nib_hi_lt; assumption). reflexivity.
  - unfold Fhi, nosimd_prod. cbn [fst snd]. rewrite !hi_byte_lxor.
    rewrite !tbl_hi by (try apply nib_lo_lt; apply nib_hi_lt; assumption). reflexivity.
Qed.

Theorem avx2_mul_block_nosimd m b : length b = 64%nat -> Forall byte b ->
  avx2_mul_block m b = nosimd_mul_block m b.
Proof.
  intros Hl Hb. rewrite nosimd_block_form by exact Hl. unfold avx2_mul_block.
  set (lo := firstn 32 b). set (hi := skipn 32 b).
  assert (L0 : length lo = 32%nat) by (unfold lo; rewrite firstn_length; lia).
  assert (L1 : length hi = 32%nat) by (unfold hi; rewrite skipn_length; lia).
  rewrite <- (map_fst_combine lo hi) at 1 by lia. rewrite <- (map_snd_combine lo hi) at 2 by lia.
  rewrite mul_256_spec; [reflexivity|rewrite combine_length; lia|].
  apply bytes2_combine; [apply Forall_firstn|apply Forall_skipn]; exact Hb.
Qed.

(* ---------- Neon ---------- *)
Lemma neon_mul_128_spec m (P : list (N * N)) : length P = 16%nat -> Forall bytes2 P ->
  neon_mul_128 m (map fst P) (map snd P) = (map (Flo m) P, map (Fhi m) P).
Proof.
  intros HL HB. unfold neon_mul_128. cbv zeta. cbn [fst snd].
  rewrite !vshrq_map. rewrite !(vand_map _ 15 P) by (rewrite HL; reflexivity).
  rewrite !vqtbl_map. rewrite !vxor_map.
  f_equal; apply map_ext_in; intros [l h] Hin; rewrite Forall_forall in HB; destruct (HB _ Hin) as [Hl Hh]; cbn [fst snd] in *;
    destruct (small_idx _ (nib_lo_lt l)) as (_ & _ & A1); destruct (small_idx _ (nib_lo_lt h)) as (_ & _ & A2);
    destruct (small_idx _ (nib_hi_lt l Hl)) as (_ & _ & A3); destruct (small_idx _ (nib_hi_lt h Hh)) as (_ & _ & A4);
    rewrite A1, A2, A3, A4.
  - unfold Flo, nosimd_prod. cbn [fst snd]. rewrite !lo_byte_lxor.
    rewrite !tbl_lo by (try apply nib_lo_lt; apply nib_hi_lt; assumption). reflexivity.
  - unfold Fhi, nosimd_prod. cbn [fst snd]. rewrite !hi_byte_lxor.
    rewrite !tbl_hi by (try apply nib_lo_lt; apply nib_hi_lt; assumption). reflexivity.
Qed.

Theorem neon_mul_block_nosimd m b : length b = 64%nat -> Forall byte b ->
  neon_mul_block m b = nosimd_mul_block m b.
Proof.
  intros Hl Hb. rewrite nosimd_block_form by exact Hl. destruct (quarter_split b Hl) as [E1 E2]. rewrite E1, E2.
  unfold neon_mul_block. cbv zeta.
  set (a0 := firstn 16 b). set (a1 := firstn 16 (skipn 16 b)). set (h0 := firstn 16 (skipn 32 b)). set (h1 := skipn 48 b).
  assert (L0 : length a0 = 16%nat) by (unfold a0; rewrite firstn_length; lia).
  assert (L1 : length a1 = 16%nat) by (unfold a1; rewrite firstn_length, skipn_length; lia).
  assert (L2 : length h0 = 16%nat) by (unfold h0; rewrite firstn_length, skipn_length; lia).
  assert (L3 : length h1 = 16%nat) by (unfold h1; rewrite skipn_length; lia).
  assert (B0 : Forall byte a0) by (apply Forall_firstn; exact Hb).
  assert (B1 : Forall byte a1) by (apply Forall_firstn, Forall_skipn; exact Hb).
  assert (B2 : Forall byte h0) by (apply Forall_firstn, Forall_skipn; exact Hb).
  assert (B3 : Forall byte h1) by (apply Forall_skipn; exact Hb).
  rewrite <- (map_fst_combine a0 h0) at 1 by lia. rewrite <- (map_snd_combine a0 h0) at 2 by lia.
  rewrite neon_mul_128_spec by (try (rewrite combine_length; lia); apply bytes2_combine; assumption).
  rewrite <- (map_fst_combine a1 h1) at 1 by lia. rewrite <- (map_snd_combine a1 h1) at 2 by lia.
  rewrite neon_mul_128_spec by (try (rewrite combine_length; lia); apply bytes2_combine; assumption).
  rewrite combine_app' by lia. rewrite !map_app, <- !app_assoc. reflexivity.
Qed.

(* ---------- all engines ---------- *)
Theorem mul_block_spec e m b : m <= 65535 -> length b = 64%nat -> Forall byte b ->
  mul_block e m b = spec_mul_block m b.
Proof.
  intros Hm Hl Hb. destruct e; cbn [mul_block];
    rewrite ?ssse3_mul_block_nosimd, ?avx2_mul_block_nosimd, ?neon_mul_block_nosimd by assumption;
    try (apply nosimd_mul_block_spec; assumption). apply naive_mul_block_spec; assumption.
Qed.
