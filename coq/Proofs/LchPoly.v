(* The LCH-basis "polynomials" of FftSpec.v as genuine polynomials over GF(2^16) (MathComp
   {poly gf}): degree bound, uniqueness of interpolation, the formal derivative of the crate is
   the derivative, and the derivative of a product with an erasure locator at its roots. *)
From mathcomp Require Import all_ssreflect all_algebra zify.
From Coq Require Import Lia.
From Coq Require Import NArith List.
From RS.Gen Require Import Prelude GenConsts.
From RS.Model Require Import Field Tables Sched Spec.
From RS.Proofs Require Import FieldFacts Ring FftSpec Lagrange GF.

Set Implicit Arguments.
Unset Strict Implicit.
Unset Printing Implicit Defensive.
Import GRing.Theory.
Local Open Scope ring_scope.

(* embedding of symbols *)
Definition emb (x : N) : gf := insubd (0 : gf) x.
Lemma gval_emb x : W16 x -> gval (emb x) = x.
Proof. by move=> /w16P Hx; rewrite /emb /insubd insubT. Qed.
Lemma emb_gval (x : gf) : emb (gval x) = x.
Proof. by apply: val_inj; rewrite /= gval_emb //; exact: gW. Qed.
Lemma emb0 : emb 0%num = 0.
Proof. by apply: val_inj; rewrite /= gval_emb. Qed.
Lemma embD x y : W16 x -> W16 y -> emb (N.lxor x y) = emb x + emb y.
Proof. by move=> Hx Hy; apply: val_inj; rewrite /= !gval_emb //; exact: W16_lxor. Qed.
Lemma embM x y : W16 x -> W16 y -> emb (fmul x y) = emb x * emb y.
Proof. by move=> Hx Hy; apply: val_inj; rewrite /= !gval_emb //; exact: fmul_lt. Qed.

(* ---------- the subspace polynomials ---------- *)
Fixpoint Sp (j : nat) : {poly gf} :=
  match j with O => 'X | S j' => Sp j' ^+ 2 + Sp j' end.

Lemma Sp_eval j (x : gf) : gval (Sp j).[x] = s_poly j (gval x).
Proof.
elim: j => [|j IH] /=; first by rewrite hornerX.
by rewrite hornerD expr2 hornerM gvalD gvalM IH.
Qed.

Lemma size_Sp j : size (Sp j) = (2 ^ j).+1.
Proof.
elim: j => [|j IH] /=; first by rewrite size_polyX.
have nz : Sp j != 0 by rewrite -size_poly_eq0 IH.
have s2 : size (Sp j ^+ 2) = (2 ^ j.+1).+1.
  by rewrite expr2 size_mul // IH expnS; lia.
have pos : (0 < 2 ^ j)%nat by rewrite expn_gt0.
by rewrite size_addl s2 // IH expnS; lia.
Qed.

Lemma poly_char2 (p : {poly gf}) : p + p = 0.
Proof. by apply/polyP=> i; rewrite coefD coef0 gf_char2. Qed.

Lemma deriv_Sp j : (Sp j)^`() = 1.
Proof.
elim: j => [|j IH] /=; first by rewrite derivX.
by rewrite derivD expr2 derivM IH mul1r mulr1 poly_char2 add0r.
Qed.

(* ---------- LCH polynomials of a coefficient list ---------- *)
Fixpoint lchp (k : nat) (c : list N) : {poly gf} :=
  match k with
  | O => (emb (List.nth 0 c 0%num))%:P
  | S k' => lchp k' (firstn (p2 k') c) + Sp k' * lchp k' (skipn (p2 k') c)
  end.

Lemma lchp_eval k : forall c (x : gf), Forall W16 c ->
  gval (lchp k c).[x] = lch k c (gval x).
Proof.
elim: k => [|k IH] c x Wc /=.
  by rewrite hornerC gval_emb //; apply: nth_W16.
rewrite hornerD hornerM gvalD gvalM Sp_eval !IH //.
- exact: Forall_skipn'.
- exact: Forall_firstn'.
Qed.

Lemma size_lchp k : forall c, (size (lchp k c) <= 2 ^ k)%nat.
Proof.
elim: k => [|k IH] c /=; first by rewrite expn0 size_polyC_leq1.
apply: (leq_trans (size_add _ _)); rewrite geq_max; apply/andP; split.
  by apply: (leq_trans (IH _)); rewrite leq_exp2l.
apply: (leq_trans (size_mul_leq _ _)); rewrite size_Sp /= expnS mul2n -addnn.
by rewrite leq_add2l.
Qed.

(* ---------- the crate's formal derivative is the derivative ---------- *)
Lemma lchp_xor k : forall a b, length a = p2 k -> length b = p2 k -> Forall W16 a -> Forall W16 b ->
  lchp k (map2 N.lxor a b) = lchp k a + lchp k b.
Proof.
elim: k => [|k IH] a b La Lb Wa Wb /=.
  case: a La Wa => [|a0 a] //= _ Wa; case: b Lb Wb => [|b0 b] //= _ Wb.
  rewrite -polyCD embD //; [exact: (Forall_inv Wa)|exact: (Forall_inv Wb)].
rewrite firstn_map2 skipn_map2.
have P2 : p2 k.+1 = (p2 k + p2 k)%coq_nat by rewrite p2_S.
rewrite !IH ?firstn_length ?skipn_length ?La ?Lb ?P2; try lia;
  try exact: Forall_firstn'; try exact: Forall_skipn'.
by rewrite mulrDr addrACA.
Qed.

Notation fdr := (formal_derivative_rec sym_ops).
Lemma fdr_length k : forall l, length l = p2 k -> length (fdr k l) = p2 k.
Proof.
elim: k => [|k IH] l Hl //=.
have P2 : p2 k.+1 = (p2 k + p2 k)%coq_nat by rewrite p2_S.
rewrite P2 in Hl.
have Llo : length (firstn (p2 k) l) = p2 k by rewrite firstn_length; lia.
have Lhi : length (skipn (p2 k) l) = p2 k by rewrite skipn_length; lia.
by rewrite app_length map2_length !IH // Lhi P2; lia.
Qed.
Lemma fdr_W16 k : forall l, Forall W16 l -> Forall W16 (fdr k l).
Proof.
elim: k => [|k IH] l Wl //=. apply/Forall_app; split.
- apply: (@Forall_map2 _ _ _ W16 W16 W16); first by move=> x y; exact: W16_lxor.
  + by apply: IH; exact: Forall_firstn'.
  + exact: Forall_skipn'.
- by apply: IH; exact: Forall_skipn'.
Qed.

(* the crate's formal_derivative is Id + d/dx on LCH coefficients *)
Lemma lchp_fdr k : forall l, length l = p2 k -> Forall W16 l ->
  lchp k (fdr k l) = lchp k l + (lchp k l)^`().
Proof.
elim: k => [|k IH] l Hl Wl /=; first by rewrite derivC addr0.
have P2 : p2 k.+1 = (p2 k + p2 k)%coq_nat by rewrite p2_S.
rewrite P2 in Hl.
set lo := firstn (p2 k) l; set hi := skipn (p2 k) l.
have Llo : length lo = p2 k by rewrite /lo firstn_length; lia.
have Lhi : length hi = p2 k by rewrite /hi skipn_length; lia.
have Wlo : Forall W16 lo by exact: Forall_firstn'.
have Whi : Forall W16 hi by exact: Forall_skipn'.
have Lx : length (map2 (xorT sym_ops) (fdr k lo) hi) = p2 k by rewrite map2_length fdr_length //; lia.
rewrite firstn_app_le ?firstn_all2 ?Lx // ; try lia.
rewrite skipn_app_le ?skipn_all2 ?Lx //=; try lia.
rewrite (lchp_xor (k:=k)) ?fdr_length //; last exact: fdr_W16.
rewrite !IH // derivD derivM deriv_Sp mul1r.
set A := lchp k lo; set B := lchp k hi; set S := Sp k.
rewrite mulrDr -!addrA; congr (_ + _).
by rewrite [RHS]addrCA; congr (_ + _); rewrite addrCA.
Qed.

(* ---------- uniqueness of interpolation on V_k ---------- *)
Lemma emb_inj_in x y : W16 x -> W16 y -> emb x = emb y -> x = y.
Proof. by move=> Hx Hy E; rewrite -(gval_emb Hx) -(gval_emb Hy) E. Qed.

Definition pts (n : nat) : list gf := [seq emb (N.of_nat v) | v <- iota 0 n].
Lemma pts_uniq n : (N.of_nat n <= 65536)%num -> uniq (pts n).
Proof.
move=> Hn; rewrite map_inj_in_uniq ?iota_uniq // => x y; rewrite !mem_iota /= !add0n => /ltP Hx /ltP Hy E.
have Wx : W16 (N.of_nat x) by rewrite /W16; lia.
have Wy : W16 (N.of_nat y) by rewrite /W16; lia.
exact: (Nat2N.inj _ _ (emb_inj_in Wx Wy E)).
Qed.
Lemma size_pts n : size (pts n) = n. Proof. by rewrite size_map size_iota. Qed.

Lemma interp_unique (n : nat) (p q : {poly gf}) : (N.of_nat n <= 65536)%num ->
  (size p <= n)%nat -> (size q <= n)%nat ->
  (forall v, (v < n)%coq_nat -> p.[emb (N.of_nat v)] = q.[emb (N.of_nat v)]) -> p = q.
Proof.
move=> Hn Sp' Sq H; apply/eqP; rewrite -subr_eq0; apply/eqP.
apply: (@roots_geq_poly_eq0 _ _ (pts n)); last 1 first.
- rewrite size_pts; apply: (leq_trans (size_add _ _)); rewrite size_opp geq_max; exact/andP.
- apply/allP=> x /mapP[v]; rewrite mem_iota add0n /= => Hv ->.
  by rewrite rootE hornerD hornerN H ?subrr //; lia.
- exact: pts_uniq.
Qed.

(* ---------- erasure locator ---------- *)
Definition loc (E : list gf) : {poly gf} := \prod_(j <- E) ('X - j%:P).
Lemma loc_eval E x : (loc E).[x] = \prod_(j <- E) (x - j).
Proof. by rewrite /loc horner_prod; apply: eq_bigr => j _; rewrite hornerXsubC. Qed.
Lemma size_loc E : size (loc E) = (size E).+1.
Proof. exact: size_prod_XsubC. Qed.
Lemma loc_root E i : i \in E -> (loc E).[i] = 0.
Proof. by move=> Hi; apply/eqP; rewrite -rootE /loc root_prod_XsubC. Qed.

Lemma loc_deriv E i : uniq E -> i \in E -> (loc E)^`().[i] = \prod_(j <- E | j != i) (i - j).
Proof.
elim: E => [|a E IH] //= /andP[aE uE]; rewrite inE /loc !big_cons -/(loc E) derivM hornerD !hornerM.
rewrite derivXsubC hornerC mul1r hornerXsubC.
case/predU1P => [->|iE].
- rewrite subrr mul0r addr0 eqxx /= loc_eval big_seq_cond [RHS]big_seq_cond.
  apply: eq_bigl => j; case jE: (j \in E) => //=.
  by apply/esym/eqP => ja; move: aE; rewrite -ja jE.
- have ia : (a != i) by apply: contraNneq aE => ->.
  by rewrite loc_root // add0r ia IH.
Qed.

(* (P * loc E * c)  +  its derivative, at an erased point *)
Lemma forney (P : {poly gf}) (E : list gf) (c i : gf) : uniq E -> i \in E ->
  let Q := P * loc E * c%:P in
  (Q + Q^`()).[i] = P.[i] * (\prod_(j <- E | j != i) (i - j)) * c.
Proof.
move=> uE iE Q; rewrite /Q hornerD !derivM derivC mulr0 addr0 !hornerM hornerD !hornerM hornerC.
by rewrite loc_root // loc_deriv // !(mulr0, mul0r, add0r).
Qed.

(* ---------- the statement of the decoding core in terms of symbols only ---------- *)
Definition locN (E : list N) (v : N) : N := fold_right (fun j acc => fmul (N.lxor v j) acc) 1%num E.
Definition locN' (E : list N) (i : N) : N := locN (List.filter (fun j => negb (N.eqb j i)) E) i.

Lemma In_mem (T : eqType) (x : T) (l : list T) : In x l <-> x \in l.
Proof.
elim: l => [|y l IH] /=; first by split.
rewrite inE; split.
  by case=> [->|/IH ->]; rewrite ?eqxx ?orbT.
by case/orP=> [/eqP ->|/IH]; [left|right].
Qed.

Lemma locN_W16 L v : Forall W16 L -> W16 v -> W16 (locN L v).
Proof.
move=> WL Wv; elim: WL => [|j L0 Wj _ IH] /=; first exact: W16_1.
by apply: fmul_lt => //; exact: W16_lxor.
Qed.
Lemma filter_W16 (f : N -> bool) L : Forall W16 L -> Forall W16 (List.filter f L).
Proof. by move=> WL; apply/Forall_forall=> x /filter_In[xL _]; move/Forall_forall: WL; apply. Qed.
Lemma locN_emb L v : Forall W16 L -> W16 v -> emb (locN L v) = \prod_(j <- List.map emb L) (emb v - j).
Proof.
move=> WL Wv; elim: WL => [|j L0 Wj WL0 IH] /=.
  by rewrite big_nil; apply: val_inj; rewrite /= gval_emb.
rewrite big_cons -IH embM ?embD ?gfN //; [exact: W16_lxor|exact: locN_W16].
Qed.
Lemma locN'_emb L i : Forall W16 L -> W16 i ->
  emb (locN' L i) = \prod_(j <- List.map emb L | j != emb i) (emb i - j).
Proof.
move=> WL Wi; rewrite /locN' locN_emb //; last exact: filter_W16.
elim: WL => [|j L0 Wj WL0 IH] /=; first by rewrite !big_nil.
rewrite [RHS]big_cons; case: N.eqb_spec => [->|ne] /=.
  by rewrite eqxx /= IH.
have -> : (emb j != emb i) by apply/eqP => /(emb_inj_in Wj Wi).
by rewrite big_cons IH.
Qed.
Lemma emb_uniq L : NoDup L -> Forall W16 L -> uniq (List.map emb L).
Proof.
elim=> [|j L' nj _ IH] //= WL.
have Wj := Forall_inv WL; have WL' := Forall_inv_tail WL.
rewrite IH // andbT; apply/negP => /mapP[x /In_mem xL' Ex]; apply: nj.
have Wx : W16 x by move/Forall_forall: WL'; apply.
by rewrite (emb_inj_in Wj Wx Ex).
Qed.

Lemma p2_expn k : p2 k = (2 ^ k)%nat.
Proof. by elim: k => [|k IH] //; rewrite p2_S IH expnS mul2n -addnn. Qed.

Lemma decode_core k kn co L cst c :
  (kn <= 16)%coq_nat -> length co = p2 k -> Forall W16 co -> Forall W16 L -> NoDup L ->
  (p2 k + length L <= p2 kn)%coq_nat -> W16 cst -> length c = p2 kn -> Forall W16 c ->
  (forall v, (v < p2 kn)%coq_nat ->
     lch kn c (N.of_nat v) = fmul (fmul (lch k co (N.of_nat v)) (locN L (N.of_nat v))) cst) ->
  forall i, In i L -> lch kn (fdr kn c) i = fmul (fmul (lch k co i) (locN' L i)) cst.
Proof.
move=> Hkn Lco Wco WL ndL Hsz Wc Lc Wcc Hval i iL.
have Wi : W16 i by move/Forall_forall: WL; apply.
set P := lchp k co; set Eg := List.map emb L; set Q := P * loc Eg * (emb cst)%:P.
have Pn : (N.of_nat (p2 kn) <= 65536)%num.
  rewrite /p2 Nat2N.inj_pow /=; change 65536%num with (2 ^ 16)%num; apply: N.pow_le_mono_r; lia.
have szPL : (size (P * loc Eg)%R <= p2 kn)%nat.
  apply: (leq_trans (size_mul_leq _ _)); rewrite size_loc size_map addnS /=.
  by apply: (@leq_trans (2 ^ k + length L)%nat); [rewrite leq_add2r size_lchp|rewrite -p2_expn; apply/leP].
have szQ : (size Q <= p2 kn)%nat.
  apply: (leq_trans (size_mul_leq _ _)); apply: leq_trans szPL.
  by have := size_polyC_leq1 (emb cst); case: (size _%:P) => [|[|t]] //= _; rewrite ?addn0 ?addn1 //; exact: leq_pred.
have EQ : Q = lchp kn c.
  apply: (@interp_unique (p2 kn)) => //; first by rewrite p2_expn size_lchp.
  move=> v Hv; have Wv : W16 (N.of_nat v) by rewrite /W16; lia.
  apply: val_inj; rewrite /= [RHS]lchp_eval // gval_emb // Hval //.
  rewrite /Q !hornerM hornerC !gvalM lchp_eval // gval_emb // loc_eval -locN_emb // !gval_emb //.
  exact: locN_W16.
have uE : uniq Eg by exact: emb_uniq.
have iEg : emb i \in Eg by apply/mapP; exists i => //; apply/In_mem.
have := forney P (emb cst) uE iEg; rewrite -/Q /= EQ -lchp_fdr // => F.
have := congr1 gval F; rewrite lchp_eval ?gval_emb //; last exact: fdr_W16.
move=> ->; rewrite !gvalM lchp_eval // !gval_emb // -locN'_emb // gval_emb //.
by rewrite /locN'; apply: locN_W16 => //; exact: filter_W16.
Qed.
