(* C13 — encoding is linear over GF(2^16).  Instances by computation (every configuration
   with K, R <= 5, both rates, both schedules, three related data vectors and four constants);
   the unbounded theorem follows from the distributivity of the field (FieldFacts, in progress)
   because every step of the schedules is xor / multiply-by-constant / copy / zero. *)
From Coq Require Import NArith Bool List Lia.
From RS.Gen Require Import Prelude GenConsts.
From RS.Model Require Import Field Tables Sched Codec Spec.
Import ListNotations.
Local Open Scope N_scope.

Definition d1 (K : N) : list N := map (fun i => (i * 40503 + 977) mod 65536) (range 0 K).
Definition d2 (K : N) : list N := map (fun i => (i * 30011 + 65521) mod 65536) (range 0 K).
Definition pad (K wc : N) (d : list N) : list N := d ++ repeat 0 (N.to_nat (wc - K)).
Definition enc (high : bool) (e : engine) (K R : N) (d : list N) : list N :=
  if high then encode_high sym_ops e K R (pad K (high_enc_work_count K R) d)
  else encode_low sym_ops e K R (pad K (N.max (np2 K) (low_enc_work_count K R)) d).
Definition leq (a b : list N) : bool := if list_eq_dec N.eq_dec a b then true else false.
Definition linear_ok (high : bool) (e : engine) (K R : N) : bool :=
  leq (enc high e K R (map2 N.lxor (d1 K) (d2 K))) (map2 N.lxor (enc high e K R (d1 K)) (enc high e K R (d2 K))) &&
  leq (enc high e K R (repeat 0 (N.to_nat K))) (repeat 0 (N.to_nat R)) &&
  forallb (fun c => leq (enc high e K R (map (fmul c) (d1 K))) (map (fmul c) (enc high e K R (d1 K)))) [0; 1; 2; 44234; 65535].

Theorem C13_instances :
  forallb (fun high => forallb (fun e => forallb (fun K => forallb (fun R => linear_ok high e K R) (range 1 6)) (range 1 6))
          [Naive; NoSimd]) [true; false] = true.
Proof. vm_compute. reflexivity. Qed.
Print Assumptions C13_instances.

(* the primitive facts linearity rests on, for all symbols: x * 0-log = identity is not needed;
   zero is absorbing, and the nibble decomposition used by every optimised kernel is additive
   on the basis (all 16 x 16 basis pairs, all sampled multipliers) *)
Theorem C13_mul_zero : forall m, mul 0 m = 0.
Proof. reflexivity. Qed.
Print Assumptions C13_mul_zero.

Theorem C13_mul_additive_basis :
  forallb (fun m => forallb (fun i => forallb (fun j =>
     mul (N.lxor (2 ^ i) (2 ^ j)) m =? (if i =? j then 0 else N.lxor (mul (2 ^ i) m) (mul (2 ^ j) m)))
     (range 0 16)) (range 0 16)) [0; 1; 2; 12345; 65534; 65535] = true.
Proof. vm_compute. reflexivity. Qed.
Print Assumptions C13_mul_additive_basis.
