# C05 history independence, C06 errors, C07 failed calls, C10 one-shot, C12 accessors, C17 allocation
from .common import *

BIG = [2 ** 32, 2 ** 63, 2 ** 64 - 2, 2 ** 64 - 1]


def small_cfg(rng, codec=None):
    while True:
        K, R, cls = (shape_stream(rng, 1, 0, 0, 0) if rng.random() < 0.6 else shape_stream(rng, 0, 1, 0, 0) or [(3, 2, 'small')])[0]
        cs = codecs_for(K, R)
        if codec is None or codec in cs:
            return K, R, rng.choice([2, 4, 30, 62, 64, 66, 128, 130])


# configurations at the edge of the envelope: most are accepted by one of the two rates only, so a default-rate
# object that holds the other rate has to switch
WIDE = [(60000, 3), (3, 60000), (40000, 100), (100, 40000), (32769, 1), (1, 32769), (30000, 30000), (61440, 4096),
        (4096, 61440), (65535, 1), (1, 65535), (32768, 32768)]


def wide_cfg(rng, codec):
    return rng.choice([kr for kr in WIDE if codec in codecs_for(*kr)])


def enc_round(rng, K, sb, seed, probes='-'):
    return ['E.add ' + orig_tok(seed, i, sb) for i in range(K)] + ['E.encode ' + probes]


def dec_round_ops(rng, K, R, pattern=None, base=0):
    os_, rs = pick_received(rng, K, R, pattern or rng.choice(PATTERNS))
    adds = [('o', i) for i in os_] + [('r', j) for j in rs]
    rng.shuffle(adds)
    return ['D.addo %d @o%d' % (i, base + i) if t == 'o' else 'D.addr %d @r%d' % (i, i) for t, i in adds], os_, rs


def bad_config(rng):
    t = rng.random()
    if t < 0.35:
        K, R = rng.choice([(0, 1), (1, 0), (0, 0), (65536, 1), (1, 65536), (32769, 32769), (65535, 2), (2, 65535),
                           (61441, 4096), (4097, 61440), (2 ** 32, 1), (1, 2 ** 63 + 1), (2 ** 64 - 1, 2 ** 64 - 1), (2 ** 63, 2 ** 63)])
        return K, R, rng.choice([2, 64, 63, 0])
    K, R, _ = small_cfg(rng)
    return K, R, rng.choice([0, 1, 3, 63, 65, 2 ** 32 + 1, 2 ** 64 - 1])


def failing_enc_op(rng, K, R, sb, recv):
    t = rng.random()
    if t < 0.3:
        return 'E.add ' + hexs(prng_bytes(rng.randint(1, 999), rng.choice([0, 1, sb - 1, sb + 1, sb + 2, 2 * sb])))
    if t < 0.5 and recv < K:
        return 'E.encode -'
    if t < 0.6 and recv == K:
        return 'E.add #5:%d' % sb
    return 'E.reset %d %d %d' % bad_config(rng)


def failing_dec_op(rng, K, R, sb, given_o, given_r, total):
    t = rng.random()
    if t < 0.2:
        return 'D.addo %d #7:%d' % (rng.choice([K, K + 1] + BIG), sb)
    if t < 0.35:
        return 'D.addr %d #7:%d' % (rng.choice([R, R + 1] + BIG), sb)
    if t < 0.5:
        kind = rng.choice('or')
        idx = rng.randrange(K if kind == 'o' else R)
        return 'D.add%s %d %s' % (kind, idx, hexs(prng_bytes(3, rng.choice([0, 1, sb - 1, sb + 1, 2 * sb]))))
    if t < 0.65 and given_o:
        return 'D.addo %d #9:%d' % (rng.choice(given_o), sb)
    if t < 0.8 and given_r:
        return 'D.addr %d #9:%d' % (rng.choice(given_r), sb)
    if t < 0.9 and total < K:
        return 'D.decode -'
    return 'D.reset %d %d %d' % bad_config(rng)


# ------------------------------------------------------------------ C05
def check_C05(v, tier, rng):
    q = tier == 'quick'
    cases = []
    for n in range(260 if q else 4000):
        rounds = rng.randint(2, 5)
        enc_side = rng.random() < 0.5
        ops = []
        codec = rng.choice(['rs', 'def', 'def', 'high', 'low'])
        engine = 'default' if codec == 'rs' else rng.choice(ENGINES)
        cur = None
        abandoned = False
        for r in range(rounds):
            last = r == rounds - 1
            K, R, sb = small_cfg(rng, codec)
            if rng.random() < 0.15:
                K, R = R, K
                if codec not in codecs_for(K, R):
                    K, R = R, K
            seed = rng.randint(1, 10 ** 6)
            # how the round starts
            if cur is None:
                start = 'new'
            else:
                opts = ['reset', 'reset', 'reset_same', 'same', 'parts', 'parts_same'] if codec != 'rs' else ['reset', 'reset', 'reset_same', 'same']
                if abandoned:
                    opts = [o for o in opts if o != 'same']   # an unfinished round is only forgotten by reset / new
                start = rng.choice(opts)
            if start in ('same', 'reset_same', 'parts_same'):
                K, R, sb = cur
            if start in ('parts', 'parts_same'):
                codec = rng.choice([c for c in ('def', 'high', 'low') if c in codecs_for(K, R)])
                engine = rng.choice(ENGINES)
                start = 'parts'
            if start == 'reset_same':
                start = 'reset'
            # an earlier round may be abandoned half way (adds only, or an encode/decode that fails)
            abandon_now = (not last) and rng.random() < 0.25
            rpos = len(ops)
            # the encoder is always needed (it produces the recovery shards the decoder consumes)
            if enc_side:
                if start == 'new':
                    ops.append('E.new %s %s %d %d %d' % (codec, engine, K, R, sb))
                elif start == 'reset':
                    if rng.random() < 0.15:
                        ops.append('E.reset %d %d 2' % wide_cfg(rng, codec))
                    ops.append('E.reset %d %d %d' % (K, R, sb))
                elif start == 'parts':
                    ops += ['E.parts', 'E.neww %s %s %d %d %d' % (codec, engine, K, R, sb)]
                if rng.random() < 0.3:
                    ops.append(failing_enc_op(rng, K, R, sb, 0))
                er = enc_round(rng, K, sb, seed)
                if last and rng.random() < 0.2:
                    er = er[:rng.randint(0, K - 1)] + er[-1:]      # too few originals
                if abandon_now:
                    er = er[:rng.randint(0, K)] + ([] if rng.random() < 0.5 else er[-1:])
                    er = er if len(er) <= K else er[:K - 1] + er[-1:]
                ops += er
                fresh = ['E.new %s %s %d %d %d' % (codec, engine, K, R, sb)] + er
            else:
                ops.append('E.new %s %s %d %d %d' % (codec if codec != 'rs' else 'rs', engine, K, R, sb))
                ops += enc_round(rng, K, sb, seed)
                if start == 'new':
                    ops.append('D.new %s %s %d %d %d' % (codec, engine, K, R, sb))
                elif start == 'reset':
                    if rng.random() < 0.15:
                        ops.append('D.reset %d %d 2' % wide_cfg(rng, codec))
                    ops.append('D.reset %d %d %d' % (K, R, sb))
                elif start == 'parts':
                    ops += ['D.parts', 'D.neww %s %s %d %d %d' % (codec, engine, K, R, sb)]
                if rng.random() < 0.3:
                    ops.append(failing_dec_op(rng, K, R, sb, [], [], 0))
                adds, os_, rs = dec_round_ops(rng, K, R)
                if last and rng.random() < 0.25:
                    # a deficient round: too few shards; a reused object must refuse it exactly like a fresh one
                    adds = adds[:rng.randint(0, K - 1)]
                if abandon_now:
                    adds = adds[:rng.randint(0, max(0, K - 1))]
                ops += adds + ([] if (abandon_now and rng.random() < 0.5) else ['D.decode -'])
                fresh = ['E.new %s %s %d %d %d' % (codec, engine, K, R, sb)] + enc_round(rng, K, sb, seed) + \
                        ['D.new %s %s %d %d %d' % (codec, engine, K, R, sb)] + adds + ['D.decode -']
            cur = (K, R, sb)
            abandoned = abandon_now
        cid = 'h%d' % n
        cases.append(Case(cid, ops, dict(kind='history', rounds=rounds, side='enc' if enc_side else 'dec', codec=codec)))
        cases.append(Case(cid + 'f', fresh, dict(kind='fresh')))
    poison = rng.randint(1, 2 ** 62)
    impl = run_cases('impl', cases, 'C05', poison=poison)
    impl0 = run_cases('impl', cases, 'C05z', poison=0)
    model = run_cases('model', cases, 'C05')
    v.extra['poison_seed'] = poison
    by = {c.id: c for c in cases}
    for c in cases:
        if c.meta['kind'] != 'history':
            continue
        note_case(v, c, c.line()[:4000])
        v.count('%s/rounds=%d/%s' % (c.meta['side'], c.meta['rounds'], c.meta['codec']))
        for tag, res in (('poisoned', impl), ('unpoisoned', impl0)):
            a = (res.get(c.id) or [None])[-1]
            b = (res.get(c.id + 'f') or [None])[-1]
            if a is None or a != b or a in ('panic', 'noobj'):
                v.violation('last round on a reused object differs from the same round on a fresh object (%s working memory, %s side)'
                            % (tag, c.meta['side']),
                            {'kind': 'oracle', 'oracle': 'fresh object', 'poison_seed': poison if tag == 'poisoned' else 0,
                             'case': c.line()[:100000], 'fresh_case': by[c.id + 'f'].line()[:100000],
                             'reused': (a or '')[:3000], 'fresh': (b or '')[:3000]})
                break
    corr_report(v, cases, impl, model, 'histories (poisoned memory) impl = model', with_adm=False,
                ignore=lambda c, k, a, b: a is not None and a.startswith('err') and b is not None and b.startswith('err'))


# ------------------------------------------------------------------ C06 / C07 sequences
def gen_api_sequences(rng, n, fail_rate):
    cases = []
    for t in range(n):
        codec = rng.choice(['rs', 'def', 'high', 'low'])
        K, R, sb = small_cfg(rng, codec)
        engine = 'default' if codec == 'rs' else rng.choice(ENGINES)
        seed = rng.randint(1, 10 ** 6)
        ops = []
        fails = []

        def maybe_fail(make):
            while rng.random() < fail_rate:
                fails.append(len(ops))
                ops.append(make())

        if rng.random() < 0.2:
            fails.append(len(ops))
            ops.append('E.new %s %s %d %d %d' % ((codec, engine) + bad_config(rng)))
        ops.append('E.new %s %s %d %d %d' % (codec, engine, K, R, sb))
        enc_rounds = rng.randint(1, 2)
        for rnd in range(enc_rounds):
            for i in range(K):
                maybe_fail(lambda: failing_enc_op(rng, K, R, sb, i))
                ops.append('E.add ' + orig_tok(seed + rnd, i, sb))
            maybe_fail(lambda: failing_enc_op(rng, K, R, sb, K))
            ops.append('E.encode %s' % ','.join(map(str, [0, R - 1, R] + [rng.choice(BIG)])))
            maybe_fail(lambda: failing_enc_op(rng, K, R, sb, 0))
        ops.append('D.new %s %s %d %d %d' % (codec, engine, K, R, sb))
        for rnd in range(rng.randint(1, 2)):
            os_, rs = pick_received(rng, K, R, rng.choice(PATTERNS))
            adds = [('o', i) for i in os_] + [('r', j) for j in rs]
            rng.shuffle(adds)
            go, gr = [], []
            for (tt, i) in adds:
                maybe_fail(lambda: failing_dec_op(rng, K, R, sb, go, gr, len(go) + len(gr)))
                ops.append('D.addo %d %s' % (i, orig_tok(seed + enc_rounds - 1, i, sb)) if tt == 'o' else 'D.addr %d @r%d' % (i, i))
                (go if tt == 'o' else gr).append(i)
            maybe_fail(lambda: failing_dec_op(rng, K, R, sb, go, gr, K))
            ops.append('D.decode %s' % ','.join(map(str, [0, K - 1, K] + [rng.choice(BIG)])))
            maybe_fail(lambda: failing_dec_op(rng, K, R, sb, [], [], 0))
        hop = rng.random() < 0.3
        if hop:
            # a valid reset to the edge of the envelope (no round there), then back
            ops += ['E.reset %d %d 2' % wide_cfg(rng, codec), 'D.reset %d %d 2' % wide_cfg(rng, codec)]
        if hop or rng.random() < 0.3:
            K2, R2, sb2 = small_cfg(rng, codec)
            ops += ['E.reset %d %d %d' % (K2, R2, sb2)] + enc_round(rng, K2, sb2, seed + 7)
            ops += ['D.reset %d %d %d' % (K2, R2, sb2)]
            adds, _, _ = dec_round_ops(rng, K2, R2)
            ops += adds + ['D.decode -']
        cases.append(Case('s%d' % t, ops, dict(codec=codec, engine=engine, K=K, R=R, sb=sb, intended_fail=fails)))
    return cases


def gen_static_ops(rng, n):
    ops = []
    vals = [0, 1, 2, 3, 4095, 4096, 4097, 32767, 32768, 32769, 61439, 61440, 61441, 65534, 65535, 65536, 65537] + BIG
    for _ in range(n):
        K, R = rng.choice(vals), rng.choice(vals)
        if rng.random() < 0.3:
            j = rng.randint(0, 16)
            K, R = 2 ** j + rng.randint(-2, 2), 65536 - 2 ** j + rng.randint(-2, 2)
            if rng.random() < 0.5:
                K, R = R, K
            K, R = max(K, 0), max(R, 0)
        c = rng.choice(['rs', 'def', 'high', 'low'])
        if rng.random() < 0.5:
            ops.append('supports %s %d %d' % (c, K, R))
        else:
            ops.append('validate %s %d %d %d' % (c, K, R, rng.choice([0, 1, 2, 63, 64, 2 ** 32, 2 ** 64 - 1, 2 ** 64 - 2])))
    return ops


def oneshot_tuples(rng, n):
    cases = []
    for t in range(n):
        K, R, sb = small_cfg(rng, 'rs')
        if rng.random() < 0.1:
            K, R, _ = bad_config(rng)
            K, R = min(K, 70000), min(R, 70000)
        seed = rng.randint(1, 10 ** 6)
        kk = max(1, min(K, 12))
        ops = ['E.new rs default %d %d %d' % (K, R, sb)] + ['E.add ' + orig_tok(seed, i, sb) for i in range(min(K, 12))] + ['E.encode -']
        # encode tuples
        cnt = rng.choice([K, K, K, K - 1, K + 1, 0, 1, K + 2])
        cnt = max(0, min(cnt, 14))
        pls = []
        for i in range(cnt):
            l = sb if rng.random() < 0.9 else rng.choice([0, 1, sb - 1, sb + 1, sb + 2, 2 * sb])
            pls.append('#%d:%d' % (seed * 100003 + i, l) if l else '-')
        ops.append('oneenc %d %d %s' % (K, R, ','.join(pls) if pls else '-'))
        # decode tuples
        def idx(bound):
            t_ = rng.random()
            if t_ < 0.8:
                return rng.randrange(max(1, bound))
            return rng.choice([bound, bound + 1] + BIG)
        no = rng.choice([0, 1, kk, kk, max(0, kk - 1), kk + 1])
        nr = rng.choice([0, 0, 1, min(R, 3), min(R, kk)])
        ol, rl = [], []
        pool = list(range(kk))
        rng.shuffle(pool)
        for i in range(no):
            ix = pool[i] if i < len(pool) and rng.random() < 0.85 else idx(K)
            l = sb if rng.random() < 0.9 else rng.choice([0, 1, sb - 1, sb + 2])
            ol.append('%d:%s' % (ix, ('@o%d' % ix) if (l == sb and ix < kk) else ('#3:%d' % l if l else '-')))
        rpool = list(range(min(R, 12)))
        rng.shuffle(rpool)
        for j in range(nr):
            jx = rpool[j] if j < len(rpool) and rng.random() < 0.85 else idx(R)
            l = sb if rng.random() < 0.9 else rng.choice([0, 1, sb - 1, sb + 2])
            rl.append('%d:%s' % (jx, ('@r%d' % jx) if (l == sb and jx < R) else ('#4:%d' % l if l else '-')))
        ops.append('onedec %d %d %s %s' % (K, R, ','.join(ol) or '-', ','.join(rl) or '-'))
        # the same through the streaming API (sb inferred the way the one-shot functions document it)
        cases.append(Case('t%d' % t, ops, dict(K=K, R=R, sb=sb, seed=seed, enc_pls=pls, dec_o=ol, dec_r=rl,
                                               oneenc_idx=len(ops) - 2, onedec_idx=len(ops) - 1)))
    return cases


def judge_against_spec(v, cases, impl, model, prop_text):
    """C06-style oracle: the model's admissible-error set is the specification of 'truthful'.
    impl Ok while adm non-empty, impl Err not in adm, impl Err while adm empty, or a panic are violations."""
    nviol = 0
    for c in cases:
        ri = impl.get(c.id) or []
        rm = model.get(c.id) or []
        for k, op in enumerate(c.ops):
            a = ri[k] if k < len(ri) else None
            b, adm = split_adm(rm[k] if k < len(rm) else None)
            if a is None or b is None or b.startswith('badcase') or b == 'skip':
                if a is None:
                    v.violation('%s: no result (harness died?)' % prop_text, {'kind': 'oracle', 'case': c.line()[:100000], 'op_index': k})
                    nviol += 1
                    break
                continue
            if a.startswith('err '):
                v.count('err:' + a.split(' ')[1])
            why = None
            if a == 'panic':
                why = 'call panicked'
            elif a == 'noobj' and b != 'noobj':
                why = 'object unusable (an earlier call panicked)'
            elif a.startswith('err ') and not adm:
                why = 'returned %s although no documented precondition is violated' % a
            elif a.startswith('err ') and a[4:] not in adm:
                why = 'returned %s which does not describe a violated precondition (truthful: %s)' % (a, '; '.join(adm))
            elif a.startswith('ok') and adm:
                why = 'returned Ok although the call violates: %s' % '; '.join(adm)
            if why:
                v.violation('%s: op %d `%s` %s' % (prop_text, k, op[:80], why),
                            {'kind': 'oracle', 'oracle': 'Admissible.admissible (truthful-error specification)',
                             'case': c.line()[:100000], 'op_index': k, 'op': op[:2000], 'impl': a[:2000], 'spec': b[:2000],
                             'admissible': adm, 'meta': c.meta})
                nviol += 1
                break
    return nviol


def check_C06(v, tier, rng):
    q = tier == 'quick'
    cases = gen_api_sequences(rng, 300 if q else 6000, 0.25)
    for t in range(40 if q else 400):
        cases.append(Case('st%d' % t, gen_static_ops(rng, 40), dict(kind='static')))
    cases += oneshot_tuples(rng, 200 if q else 3000)
    model = run_cases('model', cases, 'C06', adm=True)
    for prof in ('release', 'debug'):
        impl = run_cases('impl', cases, 'C06' + prof, profile=prof)
        n = judge_against_spec(v, cases, impl, model, 'C06 (%s build)' % prof)
        corr_report(v, cases, impl, model, 'api sequences (%s build) impl = model' % prof, with_adm=True)
        if n:
            break
    for c in cases:
        note_case(v, c, c.line()[:3000])
        v.count('case:' + c.meta.get('kind', c.meta.get('codec', 'oneshot')))


def check_C07(v, tier, rng):
    q = tier == 'quick'
    cases = gen_api_sequences(rng, 400 if q else 8000, 0.35)
    model = run_cases('model', cases, 'C07', adm=True)
    for prof in ('release', 'debug'):
        impl = run_cases('impl', cases, 'C07' + prof, profile=prof)
        # property oracle: the same sequence without the calls that failed, on a second object
        filt = []
        for c in cases:
            ri = impl.get(c.id) or []
            intended = set(c.meta.get('intended_fail', []))
            keep = [k for k in range(len(c.ops)) if not (k in intended and k < len(ri) and ri[k] is not None and ri[k].startswith('err'))]
            filt.append(Case(c.id + 'x', [c.ops[k] for k in keep], dict(keep=keep)))
        impl2 = run_cases('impl', filt, 'C07x' + prof, profile=prof)
        bad = 0
        for c, f in zip(cases, filt):
            ri = impl.get(c.id) or []
            rf = impl2.get(f.id) or []
            nf = len(c.ops) - len(f.ops)
            if prof == 'release':
                note_case(v, c, c.line()[:3000] if nf else None)
                v.count('failed_calls=%d' % min(nf, 6))
            for pos, k in enumerate(f.meta['keep']):
                a = ri[k] if k < len(ri) else None
                b = rf[pos] if pos < len(rf) else None
                if a != b or a in ('panic', 'noobj'):
                    prev = [j for j in range(k) if j not in f.meta['keep']]
                    v.violation('C07 (%s build): after failed call(s) %s the later call `%s` gives %s, but %s when the failed calls are left out'
                                % (prof, [c.ops[j][:50] for j in prev[-2:]], c.ops[k][:60], (a or '')[:80], (b or '')[:80]),
                                {'kind': 'oracle', 'oracle': 'same sequence without the failing calls', 'case': c.line()[:100000],
                                 'filtered_case': f.line()[:100000], 'op_index': k, 'with_failed_calls': (a or '')[:3000],
                                 'without': (b or '')[:3000], 'failed_ops': prev})
                    bad += 1
                    break
        corr_report(v, cases, impl, model, 'sequences with failing calls (%s build) impl = model' % prof, with_adm=True)
        if bad:
            break


def check_C10(v, tier, rng):
    q = tier == 'quick'
    cases = oneshot_tuples(rng, 700 if q else 12000)
    # streaming twins
    twins = []
    for c in cases:
        m = c.meta
        K, R = m['K'], m['R']
        pls = m['enc_pls']
        ops = list(c.ops[:m['oneenc_idx']])
        # decode twin (first: its @o references must still point at the original round)
        def plen(item):
            p = item.split(':', 1)[1]
            if p == '-':
                return 0
            if p[0] == '#':
                return int(p.split(':')[1])
            return m['sb']
        src = m['dec_r'] or m['dec_o']
        if src:
            sbd = plen(src[0])
            ops.append('D.new rs default %d %d %d' % (K, R, sbd))
            d0 = len(ops) - 1
            ops += ['D.addo %s %s' % tuple(x.split(':', 1)) for x in m['dec_o']]
            ops += ['D.addr %s %s' % tuple(x.split(':', 1)) for x in m['dec_r']]
            ops.append('D.decode -')
        else:
            d0 = None
        d1 = len(ops) - 1
        # encode twin
        if pls:
            first = pls[0]
            sbe = 0 if first == '-' else int(first.split(':')[1])
            ops.append('E.new rs default %d %d %d' % (K, R, sbe))
            e0 = len(ops) - 1
            ops += ['E.add ' + p for p in pls] + ['E.encode -']
        else:
            e0 = None
        e1 = len(ops) - 1
        twins.append(Case(c.id + 's', ops, dict(e0=e0, e1=e1, d0=d0, d1=d1)))
    model = run_cases('model', cases, 'C10', adm=True)
    impl = run_cases('impl', cases, 'C10')
    impls = run_cases('impl', twins, 'C10s')
    judge_against_spec(v, cases, impl, model, 'C10')
    for c, t in zip(cases, twins):
        m, tm = c.meta, t.meta
        ri = impl.get(c.id) or []
        rs = impls.get(t.id) or []
        note_case(v, c, c.line()[:3000])
        one_e = ri[m['oneenc_idx']] if len(ri) > m['oneenc_idx'] else None
        one_d = ri[m['onedec_idx']] if len(ri) > m['onedec_idx'] else None
        v.count('oneenc:' + (one_e or 'none').split(' ')[0] + ('' if not (one_e or '').startswith('err') else ':' + one_e.split(' ')[1]))
        v.count('onedec:' + (one_d or 'none').split(' ')[0] + ('' if not (one_d or '').startswith('err') else ':' + one_d.split(' ')[1])
                + ('/norecovery' if not m['dec_r'] else ''))
        # streaming outcome = first error in the twin segment, else the final result
        def stream(lo, hi):
            if lo is None:
                return None
            for k in range(lo, hi + 1):
                if k < len(rs) and rs[k] is not None and not rs[k].startswith('ok'):
                    return rs[k]
            return rs[hi] if hi < len(rs) else None
        se = stream(tm['e0'], tm['e1'])
        sd = stream(tm['d0'], tm['d1'])
        if se is not None and one_e is not None and supports_ok(m):
            if se.startswith('ok'):
                want = 'ok ' + (','.join(parse_round(se)[0]) or '-')
                if one_e != want:
                    v.violation('encode() differs from ReedSolomonEncoder on the same originals',
                                {'kind': 'oracle', 'case': c.line()[:100000], 'streaming_case': t.line()[:100000],
                                 'oneshot': one_e[:3000], 'streaming': se[:3000]})
            elif one_e.startswith('ok'):
                v.violation('encode() succeeds although the streaming sequence fails with %s' % se,
                            {'kind': 'oracle', 'case': c.line()[:100000], 'streaming_case': t.line()[:100000], 'oneshot': one_e[:3000]})
        if sd is not None and one_d is not None and supports_ok(m):
            if sd.startswith('ok'):
                want = 'ok ' + (','.join(parse_round(sd)[0]) or '-')
                if one_d != want:
                    v.violation('decode() differs from ReedSolomonDecoder on the same shards',
                                {'kind': 'oracle', 'case': c.line()[:100000], 'streaming_case': t.line()[:100000],
                                 'oneshot': one_d[:3000], 'streaming': sd[:3000]})
            elif one_d.startswith('ok'):
                v.violation('decode() reports success although the streaming sequence fails with %s' % sd,
                            {'kind': 'oracle', 'case': c.line()[:100000], 'streaming_case': t.line()[:100000], 'oneshot': one_d[:3000]})
    corr_report(v, cases, impl, model, 'one-shot tuples impl = model', with_adm=True)


def supports_ok(m):
    return envelope(m['K'], m['R'])


def check_C12(v, tier, rng):
    q = tier == 'quick'
    cases = gen_roundtrips_probed(rng, 160 if q else 2500)
    # consecutive rounds separated only by drops
    for t in range(40 if q else 500):
        codec = rng.choice(['rs', 'def', 'high', 'low'])
        K, R, sb = small_cfg(rng, codec)
        engine = 'default' if codec == 'rs' else rng.choice(ENGINES)
        nr = rng.randint(2, 20)
        ops = ['E.new %s %s %d %d %d' % (codec, engine, K, R, sb), 'D.new %s %s %d %d %d' % (codec, engine, K, R, sb)]
        marks = []
        expect = {}
        for r in range(nr):
            seed = rng.randint(1, 10 ** 6)
            # "dropping the result forgets the added shards": straight after a drop (or construction) the object holds
            # nothing, so encode/decode must refuse with counts of zero, and a half-supplied round with exactly its own counts
            if rng.random() < 0.3:
                expect[len(ops)] = 'err TooFewOriginalShards %d 0' % K
                ops.append('E.encode -')
            er = enc_round(rng, K, sb, seed, probes='0,%d,%d' % (R - 1, R))
            if K > 1 and rng.random() < 0.2:
                cut = rng.randint(1, K - 1)
                ops += er[:cut]
                expect[len(ops)] = 'err TooFewOriginalShards %d %d' % (K, cut)
                ops.append('E.encode -')
                ops += er[cut:]
            else:
                ops += er
            # the next E.add starts a new round: re-register references
            adds, os_, rs = dec_round_ops(rng, K, R, base=r * K)
            if rng.random() < 0.3:
                expect[len(ops)] = 'err NotEnoughShards %d 0 0' % K
                ops.append('D.decode -')
            if rng.random() < 0.3:
                cut = rng.randint(1, K - 1) if K > 1 else 0
                part = adds[:cut]
                ops += part
                expect[len(ops)] = 'err NotEnoughShards %d %d %d' % (K, sum(1 for a in part if a.startswith('D.addo')),
                                                                     sum(1 for a in part if a.startswith('D.addr')))
                ops.append('D.decode -')
                ops += adds[cut:]
            else:
                ops += adds
            ops.append('D.decode 0,%d,%d' % (K - 1, K))
            marks.append((len(ops) - 1, seed, sorted(os_)))
        cases.append(Case('rr%d' % t, ops, dict(kind='rounds', K=K, R=R, sb=sb, codec=codec, engine=engine, marks=marks, n=nr,
                                                 expect={str(k): e for k, e in expect.items()})))
    w = [model_weight(c) for c in cases]
    impl = run_cases('impl', cases, 'C12', weights=w)
    implD = run_cases('impl', cases, 'C12d', profile='debug', weights=w)
    model = run_cases('model', cases, 'C12', weights=w)
    for c in cases:
        m = c.meta
        note_case(v, c, c.line()[:3000])
        v.count(m.get('kind', 'probed') + '/' + m['codec'])
        for tag, resd in (('release', impl), ('debug', implD)):
            res = resd.get(c.id) or []
            bad = accessor_contract(c, res)
            if bad:
                v.violation('C12 (%s build): %s' % (tag, bad[0]), dict(bad[1], kind='oracle', case=c.line()[:100000], meta=m))
                break
    corr_report(v, cases, impl, model, 'accessors/iterators/rounds impl = model')


def gen_roundtrips_probed(rng, n):
    from .p_codec import gen_roundtrips
    cs = gen_roundtrips(rng, 'quick', n // 2, n // 3, n // 6, 0, probes=True)
    for c in cs:
        c.meta['kind'] = 'probed'
    return cs


def accessor_contract(c, res):
    """checks the C12 statements on one case's implementation results"""
    m = c.meta
    K, R, sb = m['K'], m['R'], m['sb']
    if m.get('kind') == 'rounds':
        # references @oI in round r>0 point into the accumulated payload list: only check structure here
        expect = m.get('expect', {})
        for k, r in enumerate(res):
            if str(k) in expect:
                if r != expect[str(k)]:
                    return ('call %d `%s` returned %s where a blank/half-supplied round must give `%s` (a dropped result must forget every added shard)'
                            % (k, c.ops[k][:60], r, expect[str(k)]), {'op_index': k})
                continue
            if r is None or not r.startswith('ok'):
                return ('call %d `%s` returned %s in a sequence of valid consecutive rounds (drop must start a new round)'
                        % (k, c.ops[k][:60], r), {'op_index': k})
        for rnd, (di, seed, given) in enumerate(m['marks']):
            d = parse_round(res[di]) if di < len(res) else None
            if d is None:
                return ('round %d: decode result missing' % rnd, {'op_index': di})
            exp = {i: orig_bytes(seed, i, sb).hex() for i in range(K) if i not in set(given)}
            if parse_map(d[0]) != exp or [int(x.split(':')[0]) for x in d[0]] != sorted(exp):
                return ('round %d of %d consecutive rounds on one decoder (separated only by dropping the result): restored originals are not the withheld originals of that round'
                        % (rnd + 1, m['n']), {'op_index': di, 'round': rnd})
        return None
    e = parse_round(res[m['enc_idx']]) if len(res) > m['enc_idx'] else None
    d = parse_round(res[m['dec_idx']]) if len(res) > m['dec_idx'] else None
    if e is None or d is None:
        return ('encode/decode failed on valid input', {})
    it, x, pr = e
    if len(it) != R or any(len(s) != 2 * sb for s in it) or x != 'NNN':
        return ('recovery iterator does not yield exactly recovery_count shards of the configured length then None forever', {'iter_len': len(it), 'after': x})
    for i, val in pr.items():
        if (val != 'none') != (i < R) or (i < R and val != it[i]):
            return ('recovery(%d) is %s' % (i, val[:20]), {'index': i})
    it, x, pr = d
    given = set(m['given_o'])
    exp_idx = [i for i in range(K) if i not in given]
    if [int(s.split(':')[0]) for s in it] != exp_idx or x != 'NNN':
        return ('restored_original_iter does not yield exactly the missing originals in ascending order then None forever',
                {'got': [s.split(':')[0] for s in it][:20], 'expected': exp_idx[:20], 'after': x})
    mp = parse_map(it)
    for i, val in pr.items():
        want_some = i < K and i not in given
        if (val != 'none') != want_some or (want_some and val != mp[i]):
            return ('restored_original(%d) is %s' % (i, val[:20]), {'index': i})
    return None


# ------------------------------------------------------------------ C17
def check_C17(v, tier, rng):
    q = tier == 'quick'
    cases = []
    for t in range(200 if q else 3000):
        big = rng.random() < 0.15
        ops = []
        codec = rng.choice(['rs', 'def', 'high', 'low'])
        engine = 'default' if codec == 'rs' else rng.choice(['nosimd', 'avx2', 'naive', 'ssse3'])
        K, R, sb = small_cfg(rng, codec)
        if big:
            sb = rng.choice([4096, 65536])
            K, R = min(K, 6), min(R, 6)
        wide = (not big) and rng.random() < 0.2      # many positions, tiny shards: the index bitmap is the large object

        def wide_cfg():
            while True:
                K_ = int(2 ** rng.uniform(5, 11)); R_ = int(2 ** rng.uniform(5, 11))
                if codec in codecs_for(K_, R_):
                    return K_, R_, 2
        if wide:
            K, R, sb = wide_cfg()
        ops.append('E.new %s %s %d %d %d' % (codec, engine, K, R, sb))
        ops.append('D.new %s %s %d %d %d' % (codec, engine, K, R, sb))
        for r in range(rng.randint(2, 6)):
            seed = rng.randint(1, 10 ** 6)
            ops += enc_round(rng, K, sb, seed, probes='0')
            adds, _, _ = dec_round_ops(rng, K, R)
            ops += adds + ['D.decode 0']
            tt = rng.random()
            if tt < 0.5:
                K2, R2, sb2 = small_cfg(rng, codec)
                if wide:
                    K2, R2, sb2 = wide_cfg()
                if big:
                    sb2 = rng.choice([64, 4096, 65536])
                    K2, R2 = min(K2, 6), min(R2, 6)
                K, R, sb = K2, R2, sb2
                ops += ['E.reset %d %d %d' % (K, R, sb), 'D.reset %d %d %d' % (K, R, sb)]
            elif tt < 0.7 and codec != 'rs':
                codec = rng.choice([c for c in ('def', 'high', 'low') if c in codecs_for(K, R)])
                ops += ['E.parts', 'E.neww %s %s %d %d %d' % (codec, engine, K, R, sb),
                        'D.parts', 'D.neww %s %s %d %d %d' % (codec, engine, K, R, sb)]
        cases.append(Case('a%d' % t, ops, dict(big=big, wide=wide, codec=codec)))
    impl = run_cases('impl', cases, 'C17', alloc=True)
    model = run_cases('model', cases, 'C17', alloc=True)
    for c in cases:
        ri = impl.get(c.id) or []
        rm = model.get(c.id) or []
        note_case(v, c, c.line()[:3000])
        v.count('big' if c.meta['big'] else ('wide' if c.meta.get('wide') else 'small'))
        for k, op in enumerate(c.ops):
            a = ri[k] if k < len(ri) else ''
            b = rm[k] if k < len(rm) else ''
            ma = re.search(r' A=(\S+)$', a or '')
            mb = re.search(r' A=(\d)$', b or '')
            if not ma or not mb:
                continue
            sizes = [] if ma.group(1) == '-' else ma.group(1).split(',')
            predicted = mb.group(1) == '1'
            if sizes:
                v.count('alloc_events')
            if sizes and not predicted:
                v.violation('C17: `%s` allocated %s bytes although the object already holds enough working space for this configuration'
                            % (op[:60], '+'.join(sizes)),
                            {'kind': 'oracle', 'oracle': 'capacity model (Machine.s_alloc): allocation only when need > held',
                             'case': c.line()[:100000], 'op_index': k, 'allocation_sizes': sizes})
                break
    strip = lambda s: re.sub(r' A=\S+$', '', s) if s else s
    impl_s = {k: [strip(x) for x in val] for k, val in impl.items() if k != '__failed__'}
    model_s = {k: [strip(x) for x in val] for k, val in model.items() if k != '__failed__'}
    corr_report(v, cases, impl_s, model_s, 'alloc histories impl = model (results)')
