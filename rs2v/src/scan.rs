//! Syntactic scanner over items / function bodies. Skips everything under
//! `#[cfg(test)]` and `#[cfg(feature = "verif-hooks")]`.

use proc_macro2::{Delimiter, TokenStream, TokenTree};
use syn::visit::{self, Visit};
use syn::{Attribute, Expr, Item, Stmt};

use crate::util::*;

#[derive(Default, Debug)]
pub struct StaticInfo {
    pub name: String,
    pub is_mut: bool,
    pub type_head: String,
    pub init: String,
}

#[derive(Default)]
pub struct Scan {
    /// every syntactic path (types, expressions, patterns, bounds, macro names)
    pub paths: Vec<Vec<String>>,
    /// paths in expression position
    pub expr_paths: Vec<Vec<String>>,
    /// callee paths of call expressions `a::b(..)`
    pub calls: Vec<Vec<String>>,
    /// method names called on the receiver `self`
    pub self_methods: Vec<String>,
    /// (callee as written, is a self/Self call) in source order
    pub ordered_calls: Vec<(String, bool)>,
    /// names of invoked macros
    pub macros: Vec<String>,
    /// identifiers inside macro arguments
    pub macro_idents: Vec<String>,
    /// identifiers directly followed by `( .. )` inside macro arguments
    pub macro_calls: Vec<String>,
    pub statics: Vec<StaticInfo>,
    /// trait names of `unsafe impl`s
    pub unsafe_impls: Vec<String>,
    pub use_idents: Vec<String>,
    /// (fn name, feature string) per #[target_feature(enable = "..")]
    pub target_features: Vec<(String, String)>,
}

fn item_attrs(it: &Item) -> &[Attribute] {
    match it {
        Item::Const(i) => &i.attrs,
        Item::Enum(i) => &i.attrs,
        Item::ExternCrate(i) => &i.attrs,
        Item::Fn(i) => &i.attrs,
        Item::ForeignMod(i) => &i.attrs,
        Item::Impl(i) => &i.attrs,
        Item::Macro(i) => &i.attrs,
        Item::Mod(i) => &i.attrs,
        Item::Static(i) => &i.attrs,
        Item::Struct(i) => &i.attrs,
        Item::Trait(i) => &i.attrs,
        Item::TraitAlias(i) => &i.attrs,
        Item::Type(i) => &i.attrs,
        Item::Union(i) => &i.attrs,
        Item::Use(i) => &i.attrs,
        _ => &[],
    }
}

pub fn expr_attrs(e: &Expr) -> &[Attribute] {
    match e {
        Expr::Array(x) => &x.attrs,
        Expr::Assign(x) => &x.attrs,
        Expr::Async(x) => &x.attrs,
        Expr::Await(x) => &x.attrs,
        Expr::Binary(x) => &x.attrs,
        Expr::Block(x) => &x.attrs,
        Expr::Break(x) => &x.attrs,
        Expr::Call(x) => &x.attrs,
        Expr::Cast(x) => &x.attrs,
        Expr::Closure(x) => &x.attrs,
        Expr::Const(x) => &x.attrs,
        Expr::Continue(x) => &x.attrs,
        Expr::Field(x) => &x.attrs,
        Expr::ForLoop(x) => &x.attrs,
        Expr::Group(x) => &x.attrs,
        Expr::If(x) => &x.attrs,
        Expr::Index(x) => &x.attrs,
        Expr::Infer(x) => &x.attrs,
        Expr::Let(x) => &x.attrs,
        Expr::Lit(x) => &x.attrs,
        Expr::Loop(x) => &x.attrs,
        Expr::Macro(x) => &x.attrs,
        Expr::Match(x) => &x.attrs,
        Expr::MethodCall(x) => &x.attrs,
        Expr::Paren(x) => &x.attrs,
        Expr::Path(x) => &x.attrs,
        Expr::Range(x) => &x.attrs,
        Expr::Reference(x) => &x.attrs,
        Expr::Repeat(x) => &x.attrs,
        Expr::Return(x) => &x.attrs,
        Expr::Struct(x) => &x.attrs,
        Expr::Try(x) => &x.attrs,
        Expr::TryBlock(x) => &x.attrs,
        Expr::Tuple(x) => &x.attrs,
        Expr::Unary(x) => &x.attrs,
        Expr::Unsafe(x) => &x.attrs,
        Expr::While(x) => &x.attrs,
        Expr::Yield(x) => &x.attrs,
        _ => &[],
    }
}

fn target_features(attrs: &[Attribute]) -> Vec<String> {
    let mut v = Vec::new();
    for a in attrs {
        if a.path().is_ident("target_feature") {
            let mut found = false;
            let _ = a.parse_nested_meta(|m| {
                if m.path.is_ident("enable") {
                    let s: syn::LitStr = m.value()?.parse()?;
                    v.push(s.value());
                    found = true;
                }
                Ok(())
            });
            if !found {
                v.push("?".to_string());
            }
        }
    }
    v
}

impl Scan {
    fn macro_tokens(&mut self, ts: TokenStream) {
        let toks: Vec<TokenTree> = ts.into_iter().collect();
        for (i, t) in toks.iter().enumerate() {
            match t {
                TokenTree::Ident(id) => {
                    let s = id.to_string();
                    if let Some(TokenTree::Group(g)) = toks.get(i + 1) {
                        if g.delimiter() == Delimiter::Parenthesis {
                            self.macro_calls.push(s.clone());
                        }
                    }
                    self.macro_idents.push(s);
                }
                TokenTree::Group(g) => self.macro_tokens(g.stream()),
                _ => {}
            }
        }
    }

    pub fn of_file(file: &syn::File) -> Scan {
        let mut s = Scan::default();
        s.visit_file(file);
        s
    }

    pub fn of_block(block: &syn::Block) -> Scan {
        let mut s = Scan::default();
        s.visit_block(block);
        s
    }
}

impl<'ast> Visit<'ast> for Scan {
    fn visit_attribute(&mut self, _a: &'ast Attribute) {}

    fn visit_item(&mut self, it: &'ast Item) {
        if is_excluded(item_attrs(it)) {
            return;
        }
        match it {
            Item::Static(st) => {
                let init = match &*st.expr {
                    Expr::Call(c) => match (&*c.func, c.args.len()) {
                        (Expr::Path(p), 1)
                            if p.qself.is_none()
                                && path_idents(&p.path).ends_with(&["LazyLock".to_string(), "new".to_string()]) =>
                        {
                            match &c.args[0] {
                                Expr::Path(a) if a.qself.is_none() && a.path.get_ident().is_some() => {
                                    a.path.get_ident().unwrap().to_string()
                                }
                                _ => "?".to_string(),
                            }
                        }
                        _ => "?".to_string(),
                    },
                    _ => "?".to_string(),
                };
                self.statics.push(StaticInfo {
                    name: st.ident.to_string(),
                    is_mut: matches!(st.mutability, syn::StaticMutability::Mut(_)),
                    type_head: type_head(&st.ty).unwrap_or_else(|| "?".to_string()),
                    init,
                });
            }
            Item::Impl(im) => {
                if im.unsafety.is_some() {
                    let name = im
                        .trait_
                        .as_ref()
                        .and_then(|(_, p, _)| p.segments.last().map(|s| s.ident.to_string()))
                        .unwrap_or_else(|| "?".to_string());
                    self.unsafe_impls.push(name);
                }
            }
            Item::Fn(f) => {
                for feat in target_features(&f.attrs) {
                    self.target_features.push((f.sig.ident.to_string(), feat));
                }
            }
            Item::Macro(m) => {
                // macro_rules! definitions: only the name matters
                let name = path_idents(&m.mac.path).join("::");
                if name == "macro_rules" {
                    self.macros.push(name);
                    return;
                }
            }
            _ => {}
        }
        visit::visit_item(self, it);
    }

    fn visit_impl_item(&mut self, ii: &'ast syn::ImplItem) {
        let attrs: &[Attribute] = match ii {
            syn::ImplItem::Fn(f) => &f.attrs,
            syn::ImplItem::Const(c) => &c.attrs,
            syn::ImplItem::Type(t) => &t.attrs,
            syn::ImplItem::Macro(m) => &m.attrs,
            _ => &[],
        };
        if is_excluded(attrs) {
            return;
        }
        if let syn::ImplItem::Fn(f) = ii {
            for feat in target_features(&f.attrs) {
                self.target_features.push((f.sig.ident.to_string(), feat));
            }
        }
        visit::visit_impl_item(self, ii);
    }

    fn visit_trait_item(&mut self, ti: &'ast syn::TraitItem) {
        let attrs: &[Attribute] = match ti {
            syn::TraitItem::Fn(f) => &f.attrs,
            syn::TraitItem::Const(c) => &c.attrs,
            syn::TraitItem::Type(t) => &t.attrs,
            syn::TraitItem::Macro(m) => &m.attrs,
            _ => &[],
        };
        if is_excluded(attrs) {
            return;
        }
        visit::visit_trait_item(self, ti);
    }

    fn visit_stmt(&mut self, st: &'ast Stmt) {
        let skip = match st {
            Stmt::Local(l) => is_excluded(&l.attrs),
            Stmt::Macro(m) => is_excluded(&m.attrs),
            Stmt::Expr(e, _) => is_excluded(expr_attrs(e)),
            Stmt::Item(_) => false,
        };
        if skip {
            return;
        }
        visit::visit_stmt(self, st);
    }

    fn visit_field_value(&mut self, fv: &'ast syn::FieldValue) {
        if is_excluded(&fv.attrs) {
            return;
        }
        visit::visit_field_value(self, fv);
    }

    fn visit_arm(&mut self, a: &'ast syn::Arm) {
        if is_excluded(&a.attrs) {
            return;
        }
        visit::visit_arm(self, a);
    }

    fn visit_expr(&mut self, e: &'ast Expr) {
        if is_excluded(expr_attrs(e)) {
            return;
        }
        match e {
            Expr::Path(p) => self.expr_paths.push(path_idents(&p.path)),
            Expr::Call(c) => {
                if let Expr::Path(p) = &*c.func {
                    let ids = path_idents(&p.path);
                    let is_self = ids.len() == 2 && ids[0] == "Self";
                    self.ordered_calls.push((ids.join("::"), is_self));
                    self.calls.push(ids);
                }
            }
            Expr::MethodCall(m) => {
                if let Expr::Path(p) = &*m.receiver {
                    if p.path.is_ident("self") {
                        self.self_methods.push(m.method.to_string());
                        self.ordered_calls.push((m.method.to_string(), true));
                    }
                }
            }
            _ => {}
        }
        visit::visit_expr(self, e);
    }

    fn visit_path(&mut self, p: &'ast syn::Path) {
        self.paths.push(path_idents(p));
        visit::visit_path(self, p);
    }

    fn visit_use_tree(&mut self, t: &'ast syn::UseTree) {
        match t {
            syn::UseTree::Path(p) => self.use_idents.push(p.ident.to_string()),
            syn::UseTree::Name(n) => self.use_idents.push(n.ident.to_string()),
            syn::UseTree::Rename(r) => self.use_idents.push(r.ident.to_string()),
            _ => {}
        }
        visit::visit_use_tree(self, t);
    }

    fn visit_macro(&mut self, m: &'ast syn::Macro) {
        self.macros.push(path_idents(&m.path).join("::"));
        self.macro_tokens(m.tokens.clone());
        // the macro's own path is not a reference to anything interesting
    }
}
