//! Copies the text of the private functions under test verbatim out of the
//! crate's sources, so that the test program runs the real code.

use std::fs;
use std::path::Path;

/// Text of the `nth` function whose header starts with `pat` (from `fn` to
/// the matching closing brace). `//` comments are skipped while matching.
fn extract(text: &str, pat: &str, nth: usize) -> String {
    let mut from = 0;
    let mut start = None;
    for _ in 0..=nth {
        let i = text[from..]
            .find(pat)
            .unwrap_or_else(|| panic!("pattern `{}` (#{}) not found", pat, nth))
            + from;
        start = Some(i);
        from = i + pat.len();
    }
    let start = start.unwrap();
    let bytes = text.as_bytes();
    let mut i = start;
    let mut depth = 0usize;
    let mut seen_open = false;
    while i < bytes.len() {
        if bytes[i] == b'/' && i + 1 < bytes.len() && bytes[i + 1] == b'/' {
            while i < bytes.len() && bytes[i] != b'\n' {
                i += 1;
            }
            continue;
        }
        match bytes[i] {
            b'{' => {
                depth += 1;
                seen_open = true;
            }
            b'}' => {
                depth -= 1;
                if seen_open && depth == 0 {
                    return text[start..=i].to_string();
                }
            }
            _ => {}
        }
        i += 1;
    }
    panic!("unbalanced braces after `{}`", pat);
}

fn main() {
    let src = std::env::var("RS2V_REPO_SRC").unwrap_or_else(|_| "/repo/src".to_string());
    let src = Path::new(&src);
    let out = std::env::var("OUT_DIR").unwrap();
    let out = Path::new(&out);
    let read = |rel: &str| {
        let p = src.join(rel);
        println!("cargo:rerun-if-changed={}", p.display());
        fs::read_to_string(&p).unwrap_or_else(|e| panic!("{}: {}", p.display(), e))
    };
    println!("cargo:rerun-if-env-changed=RS2V_REPO_SRC");

    let rate_default = read("rate/rate_default.rs");
    let rate_high = read("rate/rate_high.rs");
    let rate_low = read("rate/rate_low.rs");
    let utils = read("engine/utils.rs");
    let fwht = read("engine/fwht.rs");

    let mut s = String::new();
    s.push_str("// extracted verbatim by build.rs\n");
    s.push_str(&extract(&rate_default, "fn use_high_rate(original_count", 0));
    s.push_str("\n\npub mod utils {\n    use super::*;\n    pub(crate) ");
    s.push_str(&extract(&utils, "fn add_mod(", 0));
    s.push_str("\n    pub(crate) ");
    s.push_str(&extract(&utils, "fn sub_mod(", 0));
    s.push_str("\n}\n\n");
    s.push_str(&extract(&fwht, "fn fwht_2(", 0));
    s.push('\n');
    for (name, rate, text, nth) in [
        ("HighEnc", "HighRate", &rate_high, 0),
        ("HighDec", "HighRate", &rate_high, 1),
        ("LowEnc", "LowRate", &rate_low, 0),
        ("LowDec", "LowRate", &rate_low, 1),
    ] {
        s.push_str(&format!(
            "\npub struct {name};\nimpl {name} {{\n    fn supports(original_count: usize, recovery_count: usize) -> bool {{\n        {rate}::<NoSimd>::supports(original_count, recovery_count)\n    }}\n    pub ",
        ));
        s.push_str(&extract(text, "fn work_count(original_count", nth));
        s.push_str("\n}\n");
    }
    fs::write(out.join("extracted.rs"), s).unwrap();
}
