From mathcomp Require Import all_ssreflect all_algebra.
Set Implicit Arguments. Unset Strict Implicit. Unset Printing Implicit Defensive.
Import GRing.Theory.
Open Scope ring_scope.

Section Cantor.
Variable F : fieldType.
Hypothesis char2 : (2%N \in [char F]).
Variable beta : nat -> F.
Hypothesis beta0 : beta 0 = 1.
Hypothesis betaS : forall i, (beta i.+1)^+2 + beta i.+1 = beta i.

Lemma addxx (x : F) : x + x = 0.
Proof. by rewrite -mulr2n -mulr_natr (charf0 char2) mulr0. Qed.
Lemma oppx (x : F) : - x = x.
Proof. by apply/eqP; rewrite eq_sym -addr_eq0 addxx. Qed.
Lemma sqrD2 (x y : F) : (x + y)^+2 = x^+2 + y^+2.
Proof. by rewrite sqrrD -[_ *+ 2]mulr_natr (charf0 char2) mulr0 addr0. Qed.

Fixpoint s (j : nat) (x : F) : F :=
  if j is j'.+1 then (s j' x)^+2 + s j' x else x.

Lemma s_additive j x y : s j (x + y) = s j x + s j y.
Proof.
elim: j => [|j IH] //=; rewrite IH sqrD2 addrACA //.
Qed.

Lemma s0 j : s j 0 = 0.
Proof. by elim: j => [|j IH] //=; rewrite IH expr0n /= addr0. Qed.

(* s j (beta (j+t)) = beta t ; s j (beta i) = 0 for i < j *)
Lemma s_beta_ge j t : s j (beta (j + t)) = beta t.
Proof.
elim: j t => [|j IH] t //=.
by rewrite addSnnS IH betaS.
Qed.

Lemma s_beta_lt j i : (i < j)%N -> s j (beta i) = 0.
Proof.
elim: j i => [|j IH] i //=.
rewrite ltnS leq_eqVlt => /orP[/eqP->|/IH->]; last by rewrite expr0n /= addr0.
have := s_beta_ge j 0; rewrite addn0 beta0 => ->.
by rewrite expr1n addxx.
Qed.

(* points: pt i = sum over set bits of i *)
Definition pt (n : nat) (i : nat) : F := \sum_(j < n | odd (i %/ 2 ^ j)) beta j.

End Cantor.
