//! Counting global allocator.
//!
//! Wraps `std::alloc::System`. While the global recording flag is on, the size
//! of every `alloc` / `alloc_zeroed` / `realloc` request of at least
//! `MIN_SIZE` bytes is appended to a fixed-capacity static buffer. Nothing in
//! here allocates.

use std::alloc::{GlobalAlloc, Layout, System};
use std::sync::atomic::{AtomicBool, AtomicUsize, Ordering};

pub const MIN_SIZE: usize = 64;
const CAP: usize = 1 << 16;

static MODE: AtomicBool = AtomicBool::new(false);
static RECORDING: AtomicBool = AtomicBool::new(false);
static COUNT: AtomicUsize = AtomicUsize::new(0);
static BUF: [AtomicUsize; CAP] = [const { AtomicUsize::new(0) }; CAP];

pub struct Counting;

#[inline(always)]
fn record(size: usize) {
    if size >= MIN_SIZE && RECORDING.load(Ordering::Relaxed) {
        let i = COUNT.fetch_add(1, Ordering::Relaxed);
        if i < CAP {
            BUF[i].store(size, Ordering::Relaxed);
        }
    }
}

unsafe impl GlobalAlloc for Counting {
    #[inline]
    unsafe fn alloc(&self, layout: Layout) -> *mut u8 {
        record(layout.size());
        System.alloc(layout)
    }

    #[inline]
    unsafe fn alloc_zeroed(&self, layout: Layout) -> *mut u8 {
        record(layout.size());
        System.alloc_zeroed(layout)
    }

    #[inline]
    unsafe fn realloc(&self, ptr: *mut u8, layout: Layout, new_size: usize) -> *mut u8 {
        record(new_size);
        System.realloc(ptr, layout, new_size)
    }

    #[inline]
    unsafe fn dealloc(&self, ptr: *mut u8, layout: Layout) {
        System.dealloc(ptr, layout);
    }
}

/// Enables `--alloc` mode: `start()` will actually switch recording on.
pub fn set_mode(on: bool) {
    MODE.store(on, Ordering::SeqCst);
}

pub fn mode() -> bool {
    MODE.load(Ordering::Relaxed)
}

/// Forget everything recorded so far (called at the start of every op).
pub fn clear() {
    RECORDING.store(false, Ordering::SeqCst);
    COUNT.store(0, Ordering::SeqCst);
}

/// Recording on (only in `--alloc` mode).
#[inline]
pub fn start() {
    if mode() {
        RECORDING.store(true, Ordering::SeqCst);
    }
}

/// Recording off.
#[inline]
pub fn stop() {
    RECORDING.store(false, Ordering::SeqCst);
}

/// Sizes recorded since the last `clear()`, and whether the buffer overflowed.
pub fn recorded() -> (Vec<usize>, bool) {
    let n = COUNT.load(Ordering::SeqCst);
    let m = n.min(CAP);
    let v = (0..m).map(|i| BUF[i].load(Ordering::Relaxed)).collect();
    (v, n > CAP)
}
