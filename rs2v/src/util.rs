//! Source loading, attribute/cfg helpers, `use` flattening, item lookup.

use std::collections::{BTreeMap, HashMap};
use std::fmt;
use std::path::{Path, PathBuf};

use syn::{Attribute, Item, Meta};

#[derive(Debug)]
pub enum Error {
    /// Construct outside the supported subset: "<what> at <file>:<fn>".
    Unsupported(String),
    /// I/O, parse errors and the like.
    Other(String),
}

impl fmt::Display for Error {
    fn fmt(&self, f: &mut fmt::Formatter<'_>) -> fmt::Result {
        match self {
            Error::Unsupported(s) => write!(f, "rs2v: unsupported: {}", s),
            Error::Other(s) => write!(f, "rs2v: error: {}", s),
        }
    }
}

pub type R<T> = Result<T, Error>;

pub fn unsupported<T>(what: impl AsRef<str>, file: &str, func: &str) -> R<T> {
    Err(Error::Unsupported(format!(
        "{} at {}:{}",
        what.as_ref(),
        file,
        func
    )))
}

// ----------------------------------------------------------------------
// crate sources

pub struct SrcFile {
    /// path relative to the src dir, e.g. "engine/utils.rs"
    pub rel: String,
    pub ast: syn::File,
    /// explicit (non-glob) imports of the file's top level: local name -> full path
    pub uses: HashMap<String, Vec<String>>,
}

pub struct Crate {
    pub files: BTreeMap<String, SrcFile>,
}

fn collect_rs(dir: &Path, root: &Path, out: &mut Vec<PathBuf>) -> R<()> {
    let rd = std::fs::read_dir(dir)
        .map_err(|e| Error::Other(format!("cannot read directory {}: {}", dir.display(), e)))?;
    let mut entries: Vec<PathBuf> = rd.filter_map(|e| e.ok().map(|e| e.path())).collect();
    entries.sort();
    for p in entries {
        if p.is_dir() {
            collect_rs(&p, root, out)?;
        } else if p.extension().and_then(|s| s.to_str()) == Some("rs") {
            out.push(p);
        }
    }
    let _ = root;
    Ok(())
}

impl Crate {
    pub fn load(src: &Path) -> R<Crate> {
        let mut paths = Vec::new();
        collect_rs(src, src, &mut paths)?;
        let mut files = BTreeMap::new();
        for p in paths {
            let rel = p
                .strip_prefix(src)
                .unwrap()
                .to_string_lossy()
                .replace('\\', "/");
            let text = std::fs::read_to_string(&p)
                .map_err(|e| Error::Other(format!("cannot read {}: {}", p.display(), e)))?;
            let ast = syn::parse_file(&text)
                .map_err(|e| Error::Other(format!("cannot parse {}: {}", rel, e)))?;
            let uses = flatten_uses(&ast.items);
            files.insert(rel.clone(), SrcFile { rel, ast, uses });
        }
        Ok(Crate { files })
    }

    pub fn file(&self, rel: &str) -> R<&SrcFile> {
        self.files
            .get(rel)
            .ok_or_else(|| Error::Other(format!("source file {} not found", rel)))
    }

    /// File that holds module `crate::a::b` (segments after `crate`).
    pub fn module_file(&self, module: &[String]) -> Option<&SrcFile> {
        if module.is_empty() {
            return self.files.get("lib.rs");
        }
        let joined = module.join("/");
        self.files
            .get(&format!("{}.rs", joined))
            .or_else(|| self.files.get(&format!("{}/mod.rs", joined)))
    }

    /// Top-level item `full` = ["crate", mods.., name] -> (file, item).
    pub fn lookup_item(&self, full: &[String]) -> Option<(&SrcFile, &Item)> {
        if full.len() < 2 || full[0] != "crate" {
            return None;
        }
        let module = &full[1..full.len() - 1];
        let name = &full[full.len() - 1];
        let f = self.module_file(module)?;
        let it = f.ast.items.iter().find(|it| item_name(it).as_deref() == Some(name))?;
        Some((f, it))
    }
}

pub fn item_name(it: &Item) -> Option<String> {
    Some(match it {
        Item::Const(i) => i.ident.to_string(),
        Item::Enum(i) => i.ident.to_string(),
        Item::Fn(i) => i.sig.ident.to_string(),
        Item::Mod(i) => i.ident.to_string(),
        Item::Static(i) => i.ident.to_string(),
        Item::Struct(i) => i.ident.to_string(),
        Item::Trait(i) => i.ident.to_string(),
        Item::Type(i) => i.ident.to_string(),
        Item::Union(i) => i.ident.to_string(),
        _ => return None,
    })
}

// ----------------------------------------------------------------------
// use flattening

fn flatten_tree(tree: &syn::UseTree, prefix: &mut Vec<String>, out: &mut HashMap<String, Vec<String>>) {
    match tree {
        syn::UseTree::Path(p) => {
            prefix.push(p.ident.to_string());
            flatten_tree(&p.tree, prefix, out);
            prefix.pop();
        }
        syn::UseTree::Name(n) => {
            let id = n.ident.to_string();
            if id == "self" {
                if let Some(last) = prefix.last() {
                    out.insert(last.clone(), prefix.clone());
                }
            } else {
                let mut full = prefix.clone();
                full.push(id.clone());
                out.insert(id, full);
            }
        }
        syn::UseTree::Rename(r) => {
            let mut full = prefix.clone();
            if r.ident != "self" {
                full.push(r.ident.to_string());
            }
            out.insert(r.rename.to_string(), full);
        }
        syn::UseTree::Glob(_) => {}
        syn::UseTree::Group(g) => {
            for t in &g.items {
                flatten_tree(t, prefix, out);
            }
        }
    }
}

pub fn flatten_uses(items: &[Item]) -> HashMap<String, Vec<String>> {
    let mut out = HashMap::new();
    for it in items {
        if let Item::Use(u) = it {
            if is_excluded(&u.attrs) {
                continue;
            }
            let mut prefix = Vec::new();
            flatten_tree(&u.tree, &mut prefix, &mut out);
        }
    }
    out
}

// ----------------------------------------------------------------------
// attributes

pub fn cfg_metas(attrs: &[Attribute]) -> Vec<Meta> {
    let mut v = Vec::new();
    for a in attrs {
        if a.path().is_ident("cfg") {
            if let Ok(m) = a.parse_args::<Meta>() {
                v.push(m);
            } else {
                // unparsable cfg: keep a marker that matches nothing known
                v.push(syn::parse_str::<Meta>("rs2v_unparsable_cfg").unwrap());
            }
        }
    }
    v
}

pub fn has_cfg(attrs: &[Attribute]) -> bool {
    attrs.iter().any(|a| a.path().is_ident("cfg"))
}

fn meta_is_test_or_hook(m: &Meta) -> bool {
    match m {
        Meta::Path(p) => p.is_ident("test"),
        Meta::NameValue(nv) => {
            nv.path.is_ident("feature") && expr_str(&nv.value).as_deref() == Some("verif-hooks")
        }
        Meta::List(l) => {
            if l.path.is_ident("all") {
                let inner = l.parse_args_with(
                    syn::punctuated::Punctuated::<Meta, syn::Token![,]>::parse_terminated,
                );
                match inner {
                    Ok(ms) => ms.iter().any(meta_is_test_or_hook),
                    Err(_) => false,
                }
            } else {
                false
            }
        }
    }
}

/// `#[cfg(test)]`, `#[cfg(feature = "verif-hooks")]` or `#[cfg(all(.., one of those, ..))]`.
pub fn is_excluded(attrs: &[Attribute]) -> bool {
    cfg_metas(attrs).iter().any(meta_is_test_or_hook)
}

/// Same, but only the verification-hook form.
pub fn is_hook(attrs: &[Attribute]) -> bool {
    fn hook(m: &Meta) -> bool {
        match m {
            Meta::NameValue(nv) => {
                nv.path.is_ident("feature")
                    && expr_str(&nv.value).as_deref() == Some("verif-hooks")
            }
            Meta::List(l) if l.path.is_ident("all") => l
                .parse_args_with(
                    syn::punctuated::Punctuated::<Meta, syn::Token![,]>::parse_terminated,
                )
                .map(|ms| ms.iter().any(hook))
                .unwrap_or(false),
            _ => false,
        }
    }
    cfg_metas(attrs).iter().any(hook)
}

pub fn expr_str(e: &syn::Expr) -> Option<String> {
    if let syn::Expr::Lit(syn::ExprLit {
        lit: syn::Lit::Str(s),
        ..
    }) = e
    {
        Some(s.value())
    } else {
        None
    }
}

/// Interprets a `#[cfg(..)]` on a block as an architecture selector.
/// Returns None when there is no cfg attribute at all.
pub fn arch_of_cfg(attrs: &[Attribute]) -> Option<Result<String, String>> {
    let metas = cfg_metas(attrs);
    if metas.is_empty() {
        return None;
    }
    if metas.len() != 1 {
        return Some(Err("several cfg attributes".into()));
    }
    fn target_arch(m: &Meta) -> Option<String> {
        if let Meta::NameValue(nv) = m {
            if nv.path.is_ident("target_arch") {
                return expr_str(&nv.value);
            }
        }
        None
    }
    let m = &metas[0];
    if let Some(a) = target_arch(m) {
        return Some(if a == "aarch64" {
            Ok("aarch64".into())
        } else {
            Err(format!("cfg(target_arch = \"{}\")", a))
        });
    }
    if let Meta::List(l) = m {
        if l.path.is_ident("any") {
            if let Ok(ms) = l.parse_args_with(
                syn::punctuated::Punctuated::<Meta, syn::Token![,]>::parse_terminated,
            ) {
                let mut archs: Vec<String> = Vec::new();
                for x in ms.iter() {
                    match target_arch(x) {
                        Some(a) => archs.push(a),
                        None => return Some(Err(format!("cfg({})", meta_text(m)))),
                    }
                }
                archs.sort();
                archs.dedup();
                if archs == ["x86".to_string(), "x86_64".to_string()] {
                    return Some(Ok("x86".into()));
                }
            }
        }
    }
    Some(Err(format!("cfg({})", meta_text(m))))
}

pub fn meta_text(m: &Meta) -> String {
    use quote::ToTokens;
    m.to_token_stream().to_string()
}

pub fn tokens_text<T: quote::ToTokens>(t: &T) -> String {
    t.to_token_stream().to_string()
}

/// Path segments as plain identifiers (generic arguments dropped).
pub fn path_idents(p: &syn::Path) -> Vec<String> {
    p.segments.iter().map(|s| s.ident.to_string()).collect()
}

/// Last identifier of a type like `Foo<E>` / `a::Foo`.
pub fn type_head(t: &syn::Type) -> Option<String> {
    match t {
        syn::Type::Path(tp) if tp.qself.is_none() => {
            tp.path.segments.last().map(|s| s.ident.to_string())
        }
        syn::Type::Paren(p) => type_head(&p.elem),
        syn::Type::Group(g) => type_head(&g.elem),
        _ => None,
    }
}

/// Coq string literal.
pub fn coq_str(s: &str) -> String {
    format!("\"{}\"%string", s.replace('"', "\"\""))
}

pub fn coq_list(items: &[String]) -> String {
    format!("[{}]", items.join("; "))
}

pub fn coq_str_list(items: &[String]) -> String {
    coq_list(&items.iter().map(|s| coq_str(s)).collect::<Vec<_>>())
}

/// Multi-line list, one element per line.
pub fn coq_list_lines(items: &[String]) -> String {
    if items.is_empty() {
        return "[]".into();
    }
    let mut s = String::from("[\n");
    for (i, it) in items.iter().enumerate() {
        s.push_str("  ");
        s.push_str(it);
        if i + 1 < items.len() {
            s.push(';');
        }
        s.push('\n');
    }
    s.push(']');
    s
}
