//! Portable emulation of the AArch64 Neon intrinsics used by
//! `/repo/src/engine/engine_neon.rs`, with exact Arm semantics.
//!
//! All functions are `unsafe fn` like their `std::arch::aarch64` counterparts
//! so the ported source compiles without `unused_unsafe` noise.

#![allow(non_camel_case_types, dead_code, clippy::missing_safety_doc)]

/// 128-bit vector of sixteen `u8` lanes (lane 0 = lowest address).
#[derive(Clone, Copy)]
pub struct uint8x16_t([u8; 16]);

/// VLD1.8: load 16 bytes (no alignment requirement).
#[inline(always)]
pub unsafe fn vld1q_u8(ptr: *const u8) -> uint8x16_t {
    uint8x16_t(std::ptr::read_unaligned(ptr.cast::<[u8; 16]>()))
}

/// VST1.8: store 16 bytes (no alignment requirement).
#[inline(always)]
pub unsafe fn vst1q_u8(ptr: *mut u8, a: uint8x16_t) {
    std::ptr::write_unaligned(ptr.cast::<[u8; 16]>(), a.0);
}

/// DUP: all lanes = `value`.
#[inline(always)]
pub unsafe fn vdupq_n_u8(value: u8) -> uint8x16_t {
    uint8x16_t([value; 16])
}

/// AND (vector).
#[inline(always)]
pub unsafe fn vandq_u8(a: uint8x16_t, b: uint8x16_t) -> uint8x16_t {
    let mut r = [0u8; 16];
    for i in 0..16 {
        r[i] = a.0[i] & b.0[i];
    }
    uint8x16_t(r)
}

/// ORR (vector).
#[inline(always)]
pub unsafe fn vorrq_u8(a: uint8x16_t, b: uint8x16_t) -> uint8x16_t {
    let mut r = [0u8; 16];
    for i in 0..16 {
        r[i] = a.0[i] | b.0[i];
    }
    uint8x16_t(r)
}

/// EOR (vector).
#[inline(always)]
pub unsafe fn veorq_u8(a: uint8x16_t, b: uint8x16_t) -> uint8x16_t {
    let mut r = [0u8; 16];
    for i in 0..16 {
        r[i] = a.0[i] ^ b.0[i];
    }
    uint8x16_t(r)
}

/// USHR: per-byte logical shift right by immediate `N` (1..=8; 8 yields 0).
#[inline(always)]
pub unsafe fn vshrq_n_u8<const N: i32>(a: uint8x16_t) -> uint8x16_t {
    assert!(N >= 1 && N <= 8, "vshrq_n_u8: immediate out of range");
    let mut r = [0u8; 16];
    if N < 8 {
        for i in 0..16 {
            r[i] = a.0[i] >> (N as u32);
        }
    }
    uint8x16_t(r)
}

/// SHL: per-byte shift left by immediate `N` (0..=7).
#[inline(always)]
pub unsafe fn vshlq_n_u8<const N: i32>(a: uint8x16_t) -> uint8x16_t {
    assert!(N >= 0 && N <= 7, "vshlq_n_u8: immediate out of range");
    let mut r = [0u8; 16];
    for i in 0..16 {
        r[i] = a.0[i] << (N as u32);
    }
    uint8x16_t(r)
}

/// TBL (single 16-byte table): `r[i] = t[idx[i]]` if `idx[i] < 16`, else 0.
#[inline(always)]
pub unsafe fn vqtbl1q_u8(t: uint8x16_t, idx: uint8x16_t) -> uint8x16_t {
    let mut r = [0u8; 16];
    for i in 0..16 {
        let j = idx.0[i] as usize;
        r[i] = if j < 16 { t.0[j] } else { 0 };
    }
    uint8x16_t(r)
}

#[cfg(test)]
mod tests {
    use super::*;

    #[test]
    fn tbl_out_of_range_is_zero() {
        unsafe {
            let t = uint8x16_t([
                10, 11, 12, 13, 14, 15, 16, 17, 18, 19, 20, 21, 22, 23, 24, 25,
            ]);
            let idx = uint8x16_t([0, 15, 16, 255, 1, 2, 3, 4, 5, 6, 7, 8, 9, 10, 11, 0x80]);
            let r = vqtbl1q_u8(t, idx);
            assert_eq!(
                r.0,
                [10, 25, 0, 0, 11, 12, 13, 14, 15, 16, 17, 18, 19, 20, 21, 0]
            );
        }
    }

    #[test]
    fn shr_is_per_byte_logical() {
        unsafe {
            let a = uint8x16_t([0xff; 16]);
            assert_eq!(vshrq_n_u8::<4>(a).0, [0x0f; 16]);
            assert_eq!(vshrq_n_u8::<8>(a).0, [0; 16]);
        }
    }
}
