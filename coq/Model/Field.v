(* GF(2^16) arithmetic and the exp/log tables, following src/engine/tables.rs
   (initialize_exp_log), src/engine/utils.rs (add_mod, sub_mod) and tables::mul. *)
From Coq Require Import NArith List Bool FMapPositive.
From RS.Gen Require Import Prelude GenConsts.
Import ListNotations.
Local Open Scope N_scope.

(* ---------- random-access tables ---------- *)
Definition tbl := PositiveMap.t N.
Definition tempty : tbl := PositiveMap.empty N.
Definition tget (t : tbl) (i : N) : N :=
  match PositiveMap.find (N.succ_pos i) t with Some v => v | None => 0 end.
Definition tset (t : tbl) (i v : N) : tbl := PositiveMap.add (N.succ_pos i) v t.

(* [a; a+1; ...; a+n-1] *)
Fixpoint rangeN (a : N) (n : nat) : list N :=
  match n with O => [] | S k => a :: rangeN (a + 1) k end.
Definition range (a b : N) : list N := rangeN a (N.to_nat (b - a)).
Definition fold_range {S : Type} (a b : N) (f : N -> S -> S) (s : S) : S :=
  fold_left (fun acc i => f i acc) (range a b) s.
Definition tbl_to_list (t : tbl) (n : N) : list N := map (tget t) (range 0 n).
Definition tbl_of_list (l : list N) : tbl :=
  snd (fold_left (fun '(i, t) v => (i + 1, tset t i v)) l (0, tempty)).

(* ---------- polynomial-basis field: multiply by x modulo GF_POLYNOMIAL ---------- *)
Definition mulx (a : N) : N :=
  let s := N.shiftl a 1 in
  if GF_ORDER <=? s then N.lxor s GF_POLYNOMIAL else s.

(* Cantor-basis conversion: xor of CANTOR_BASIS[i] over the set bits i of x *)
Fixpoint phi_aux (basis : list N) (i : N) (x : N) : N :=
  match basis with
  | [] => 0
  | b :: rest => N.lxor (if N.testbit x i then b else 0) (phi_aux rest (i + 1) x)
  end.
Definition phi (x : N) : N := phi_aux CANTOR_BASIS 0 x.

(* ---------- modular helpers (utils.rs) ---------- *)
(* On u16 arguments these are the Rust functions (u32 intermediate, end-around
   carry); equality with the translated source text is ModFacts.add_mod_gen /
   sub_mod_gen.  Written without [mod] so that they evaluate quickly. *)
Definition add_mod (x y : N) : N :=
  let sum := x + y in if sum <? 65536 then sum else sum - 65535.
Definition sub_mod (x y : N) : N :=
  if y <=? x then x - y else x + 65535 - y.

(* ---------- initialize_exp_log ---------- *)
Definition lfsr_step (st : N * N * tbl) : N * N * tbl :=
  let '(i, s, e) := st in (i + 1, mulx s, tset e s i).
(* exp after "GENERATE LFSR TABLE": exp[state_i] = i, exp[0] = GF_MODULUS *)
Definition lfsr_tbl : tbl :=
  let '(_, _, e) := N.iter GF_MODULUS lfsr_step (0, 1, tempty) in
  tset e 0 GF_MODULUS.
(* log[i] = exp_lfsr[cantor(i)] *)
Definition log_tbl : tbl :=
  fold_range 0 GF_ORDER (fun i t => tset t i (tget lfsr_tbl (phi i))) tempty.
(* exp[log[i]] = i (written over the LFSR table), then exp[GF_MODULUS] = exp[0] *)
Definition exp_tbl : tbl :=
  let e := fold_range 0 GF_ORDER (fun i t => tset t (tget log_tbl i) i) lfsr_tbl in
  tset e GF_MODULUS (tget e 0).

Definition glog (x : N) : N := tget log_tbl x.
Definition gexp (k : N) : N := tget exp_tbl k.

(* tables::mul : x * g^log_m *)
Definition mul (x log_m : N) : N :=
  if x =? 0 then 0 else gexp (add_mod (glog x) log_m).
(* field product of two elements (used by specs and by initialize_skew) *)
Definition fmul (a b : N) : N := if b =? 0 then 0 else mul a (glog b).
Definition finv (a : N) : N := gexp (GF_MODULUS - glog a).
Definition fdiv (a b : N) : N := if a =? 0 then 0 else mul a (GF_MODULUS - glog b).
