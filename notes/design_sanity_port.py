# Design-time numerical sanity check (NOT part of the verification machinery).
# Python port of the crate tables, fft/ifft, eval_poly, encode/decode (symbol level).
# Confirms: round trips with junk in unused work positions, eval_poly_spec, codeword_degree.
import random
P=0x1002D
CB=[0x0001,0xACCA,0x3C0E,0x163E,0xC582,0xED2E,0x914C,0x4012,0x6C98,0x10D8,0x6A72,0xB900,0xFDB8,0xFB34,0xFF38,0x991E]
exp=[0]*65536;log=[0]*65536
state=1
for i in range(65535):
    exp[state]=i; state<<=1
    if state>=65536: state^=P
exp[0]=65535
for i in range(16):
    w=1<<i
    for j in range(w): log[j+w]=log[j]^CB[i]
for i in range(65536): log[i]=exp[log[i]]
for i in range(65536): exp[log[i]]=i
exp[65535]=exp[0]
M=65535
def add_mod(x,y):
    s=x+y; return (s+(s>>16))&0xffff
def sub_mod(x,y):
    d=(x-y)&0xffffffff; return (d+(d>>16))&0xffff
def mul(x,lm): return 0 if x==0 else exp[add_mod(log[x],lm)]
def fm(a,b): return 0 if a==0 or b==0 else mul(a,log[b])
def s(j,x):
    for _ in range(j): x=fm(x,x)^x
    return x
skew=[0]*65535; temp=[1<<i for i in range(1,16)]
for m in range(15):
    step=1<<(m+1); skew[(1<<m)-1]=0
    for i in range(m,15):
        ss=1<<(i+1); j=(1<<m)-1
        while j<ss:
            skew[j+ss]=skew[j]^temp[i]; j+=step
    temp[m]=65535-log[mul(temp[m],log[temp[m]^1])]
    for i in range(m+1,15):
        sm=add_mod(log[temp[i]^1],temp[m]); temp[i]=mul(temp[i],sm)
skew=[log[x] for x in skew]
def fft(d,pos,size,trunc,sd):
    dist=size//2
    while dist>0:
        r=0
        while r<trunc:
            lm=skew[r+dist+sd-1]
            for i in range(r,r+dist):
                a,b=pos+i,pos+i+dist
                if lm!=M: d[a]^=mul(d[b],lm)
                d[b]^=d[a]
            r+=2*dist
        dist//=2
def ifft(d,pos,size,trunc,sd):
    dist=1
    while dist<size:
        r=0
        while r<trunc:
            lm=skew[r+dist+sd-1]
            for i in range(r,r+dist):
                a,b=pos+i,pos+i+dist
                d[b]^=d[a]
                if lm!=M: d[a]^=mul(d[b],lm)
            r+=2*dist
        dist*=2
def fwht(data,mtr):
    dist=1;dist4=4
    while dist4<=65536:
        for r in range(0,mtr,dist4):
            for off in range(r,r+dist):
                i0,i1,i2,i3=off,off+dist,off+2*dist,off+3*dist
                a,b,c,d=data[i0],data[i1],data[i2],data[i3]
                s0,d0=add_mod(a,b),sub_mod(a,b); s1,d1=add_mod(c,d),sub_mod(c,d)
                data[i0],data[i2]=add_mod(s0,s1),sub_mod(s0,s1)
                data[i1],data[i3]=add_mod(d0,d1),sub_mod(d0,d1)
        dist=dist4;dist4<<=2
lw=log[:]; lw[0]=0; fwht(lw,65536)
def eval_poly(er,tr):
    fwht(er,tr)
    for i in range(65536):
        p=er[i]*lw[i]; er[i]=add_mod(p&0xffff,p>>16)
    fwht(er,65536)
def np2(x):
    p=1
    while p<x:p*=2
    return p
def formal_derivative(w,n):
    for i in range(1,n):
        width=i&-i
        for k in range(width): w[i-width+k]^=w[i+k]
def enc_high(orig,K,R):
    m=np2(R); wc=-(-K//m)*m
    w=orig[:]+[0]*(wc-K)
    first=min(K,m)
    for i in range(first,m): w[i]=0
    ifft(w,0,m,first,m)
    if K>m:
        cs=m
        while cs+m<=K:
            ifft(w,cs,m,m,cs+m)
            for i in range(m): w[i]^=w[cs+i]
            cs+=m
        last=K%m
        if last>0:
            for i in range(cs+last,wc): w[i]=0
            ifft(w,cs,m,last,cs+m)
            for i in range(m): w[i]^=w[cs+i]
    fft(w,0,m,R,0)
    return w[:R]
def enc_low(orig,K,R):
    m=np2(K); wc=-(-R//m)*m
    w=orig[:]+[0]*(max(wc,m)-K)
    ifft(w,0,m,K,0)
    cs=m
    while cs<R:
        w[cs:cs+m]=w[0:m]; cs+=m
    cs=0
    while cs+m<=R:
        fft(w,cs,m,m,cs+m); cs+=m
    last=R%m
    if last>0: fft(w,cs,m,last,cs+m)
    return w[:R]
def dec_high(K,R,O,Rs,junk):
    m=np2(R); oe=m+K; n=np2(oe)
    w=[random.randrange(65536) if junk else 0 for _ in range(n)]
    rcv=[False]*n
    for i,v in O.items(): w[m+i]=v; rcv[m+i]=True
    for j,v in Rs.items(): w[j]=v; rcv[j]=True
    er=[0]*65536
    for i in range(R):
        if not rcv[i]: er[i]=1
    for i in range(R,m): er[i]=1
    for i in range(m,oe):
        if not rcv[i]: er[i]=1
    ind=er[:]
    eval_poly(er,oe)
    # check eval_poly_spec on work positions
    for x in random.sample(range(n),min(n,6)):
        t=0
        for j in range(65536):
            if ind[j] and j!=x: t=(t+log[x^j])%65535
        assert er[x]%65535==t,("evalpoly",x,er[x],t)
    for i in range(R):
        w[i]=mul(w[i],er[i]) if rcv[i] else 0
    for i in range(R,m): w[i]=0
    for i in range(m,oe):
        w[i]=mul(w[i],er[i]) if rcv[i] else 0
    for i in range(oe,n): w[i]=0
    ifft(w,0,n,oe,0); formal_derivative(w,n); fft(w,0,n,oe,0)
    out={}
    for i in range(m,oe):
        if not rcv[i]: out[i-m]=mul(w[i],M-er[i])
    return out
def dec_low(K,R,O,Rs,junk):
    m=np2(K); re=m+R; n=np2(re)
    w=[random.randrange(65536) if junk else 0 for _ in range(n)]
    rcv=[False]*n
    for i,v in O.items(): w[i]=v; rcv[i]=True
    for j,v in Rs.items(): w[m+j]=v; rcv[m+j]=True
    er=[0]*65536
    for i in range(K):
        if not rcv[i]: er[i]=1
    for i in range(m,re):
        if not rcv[i]: er[i]=1
    for i in range(re,65536): er[i]=1
    eval_poly(er,65536)
    for i in range(K):
        w[i]=mul(w[i],er[i]) if rcv[i] else 0
    for i in range(K,m): w[i]=0
    for i in range(m,re):
        w[i]=mul(w[i],er[i]) if rcv[i] else 0
    for i in range(re,n): w[i]=0
    ifft(w,0,n,re,0); formal_derivative(w,n); fft(w,0,n,re,0)
    out={}
    for i in range(K):
        if not rcv[i]: out[i]=mul(w[i],M-er[i])
    return out
random.seed(7)
def trial(K,R,rate):
    o=[random.randrange(65536) for _ in range(K)]
    rec=(enc_high if rate=='h' else enc_low)(o,K,R)
    allsh=[('o',i) for i in range(K)]+[('r',j) for j in range(R)]
    cnt=random.randrange(K,K+R+1)
    pick=random.sample(allsh,cnt)
    O={i:o[i] for t,i in pick if t=='o'}; Rs={j:rec[j] for t,j in pick if t=='r'}
    if len(O)==K: return True
    out=(dec_high if rate=='h' else dec_low)(K,R,O,Rs,True)
    return all(out[i]==o[i] for i in range(K) if i not in O) and set(out)==set(range(K))-set(O)
for (K,R) in [(5,3),(3,2),(9,4),(13,3),(7,1),(3,3),(1,1),(2,1),(100,37)]:
    print('h',K,R,all(trial(K,R,'h') for _ in range(4)))
for (K,R) in [(3,5),(2,3),(4,9),(3,13),(1,7),(3,3),(1,1),(1,2),(37,100)]:
    print('l',K,R,all(trial(K,R,'l') for _ in range(4)))
# codeword_degree (high): ifft over n of [rec | pad | orig | zeros] has top m coefficients zero
K,R=9,3; m=np2(R); n=np2(m+K)
o=[random.randrange(65536) for _ in range(K)]; rec=enc_high(o,K,R)
# full recovery chunk needs all m recovery values: encode with R'=m
recfull=enc_high(o,K,m)
assert recfull[:R]==rec
cw=recfull+o+[0]*(n-m-K)
c=cw[:]; ifft(c,0,n,n,0)
print("codeword_degree high: top m coeffs", c[n-m:], "n,m",n,m)
