(* C11 — decoding is independent of arrival order and of surplus shards. *)
From Coq Require Import NArith Bool List Permutation FMapPositive.
From RS.Gen Require Import Prelude GenConsts.
From RS.Model Require Import Field Sched Codec Layout Machine.
From RS.Proofs Require Import PermFacts MachineOps.
Import ListNotations.
Local Open Scope N_scope.

(* any order (arbitrary interleaving of original and recovery shards) of a set of adds that is
   accepted in one order is accepted in every order and leaves the SAME decoder object: same
   bitmap, counters and memory; hence decode() returns the same result, byte for byte *)
Theorem C11_perm : forall x l l' x',
  Permutation l l' -> dec_adds x l = inl x' -> dec_adds x l' = inl x'.
Proof. exact dec_adds_perm. Qed.
Print Assumptions C11_perm.

Theorem C11_perm_decode : forall junk ep x l l' x1 x2 probes,
  Permutation l l' -> dec_adds x l = inl x1 -> dec_adds x l' = inl x2 ->
  dec_decode junk ep x1 probes = dec_decode junk ep x2 probes.
Proof. intros. rewrite (dec_adds_perm _ _ _ _ H H0) in H1. congruence. Qed.
Print Assumptions C11_perm_decode.

(* originals that were given are never reported as restored; when all originals were given
   the result is empty, whatever recovery shards accompany them *)
Theorem C11_given_not_restored : forall junk ep x probes x' it pr i b,
  dec_decode junk ep x probes = (x', RDec it pr) -> In (i, b) it ->
  i < dw_K (d_work x) /\ pmem (dw_received (d_work x)) (dw_obase (d_work x) + i) = false.
Proof.
  intros junk ep x probes x' it pr i b. unfold dec_decode.
  destruct (_ <? _); [discriminate|]. destruct (_ =? _); [intros [= _ <- _] []|].
  intros [= _ <- _] Hin. apply in_flat_map in Hin. destruct Hin as (k & _ & Hk).
  destruct ((k <? dw_K (d_work x)) && negb (pmem (dw_received (d_work x)) (dw_obase (d_work x) + k))) eqn:E; [|destruct Hk].
  destruct (option_map _ _); [|destruct Hk]. destruct Hk as [[= -> _]|[]].
  apply andb_prop in E. destruct E as [E1 E2]. apply N.ltb_lt in E1. apply negb_true_iff in E2. auto.
Qed.
Print Assumptions C11_given_not_restored.

Theorem C11_full : forall junk ep x probes,
  dw_orecv (d_work x) = dw_K (d_work x) ->
  snd (dec_decode junk ep x probes) = RDec [] (map (fun i => (i, None)) probes).
Proof.
  intros junk ep x probes H. unfold dec_decode. rewrite H, N.eqb_refl.
  assert ((dw_K (d_work x) + dw_rrecv (d_work x) <? dw_K (d_work x)) = false) as -> by (apply N.ltb_ge; apply N.le_add_r).
  reflexivity.
Qed.
Print Assumptions C11_full.

Example C11_example :
  let j := fun _ _ _ : N => 7 in
  let s := fst (step j init (DNew CHigh NoSimd 3 2 2)) in
  match s_dec s with
  | Some x => dec_adds x [AddO 1 [1; 2]; AddR 0 [3; 4]; AddR 1 [5; 6]] =
              dec_adds x [AddR 1 [5; 6]; AddO 1 [1; 2]; AddR 0 [3; 4]] /\
              exists x', dec_adds x [AddO 1 [1; 2]; AddR 0 [3; 4]; AddR 1 [5; 6]] = inl x'
  | None => False
  end.
Proof. vm_compute. split; [reflexivity|eexists; reflexivity]. Qed.


(* surplus and order: whatever two accepted lists of adds are given to two decoders - any order,
   any interleaving, any supersets of a sufficient set, any engines - as long as each add is the
   original or the produced recovery shard of its index and there are at least original_count of
   them, both decodes succeed and report the SAME shard for every original missing from both:
   the original itself (C01_api_decode) *)
Theorem C11_surplus : forall junk, (forall a b c, junk a b c < 65536) ->
  forall c ee ed1 ed2 K R sb ep ep1 ep2 originals, validateb c K R sb = None ->
  N.of_nat (length originals) = K -> Forall (byteshard sb) originals ->
  forall w0 x0 x a0, enc_make c ee K R sb w0 = inl (x0, a0) -> enc_add_all x0 originals = inl x ->
  forall v1 y01 y1 b1 adds1 v2 y02 y2 b2 adds2,
  dec_make c ed1 K R sb v1 = inl (y01, b1) -> dec_adds y01 adds1 = inl y1 ->
  dec_make c ed2 K R sb v2 = inl (y02, b2) -> dec_adds y02 adds2 = inl y2 ->
  (forall a, In a adds1 \/ In a adds2 -> match a with AddO i s => s = nth (N.to_nat i) originals []
                                     | AddR j s => s = nth (N.to_nat j) (encode_shards junk ep x) [] end) ->
  K <= N.of_nat (length adds1) -> K <= N.of_nat (length adds2) ->
  forall p1 p2 i, i < K -> (forall s, ~ In (AddO i s) adds1) -> (forall s, ~ In (AddO i s) adds2) ->
  exists b y1' it1 pr1 y2' it2 pr2,
    dec_decode junk ep1 y1 p1 = (y1', RDec it1 pr1) /\ dec_decode junk ep2 y2 p2 = (y2', RDec it2 pr2) /\
    In (i, b) it1 /\ In (i, b) it2.
Proof.
  intros junk Hj c ee ed1 ed2 K R sb ep ep1 ep2 originals Hv Lo Bo w0 x0 x a0 Hx0 Hx v1 y01 y1 b1 adds1 v2 y02 y2 b2 adds2
         Hy01 Hy1 Hy02 Hy2 Hadds C1 C2 p1 p2 i Hi N1 N2.
  exists (nth (N.to_nat i) originals []).
  destruct (rate_of c K R) eqn:Er.
  - destruct (ops_high_decode junk Hj c ee ed1 K R sb ep ep1 originals Hv Er Lo Bo w0 x0 x a0 Hx0 Hx v1 y01 y1 b1 adds1 Hy01 Hy1
                 (fun a Ha => Hadds a (or_introl Ha)) C1 p1 i Hi N1) as (y1' & it1 & pr1 & D1 & I1).
    destruct (ops_high_decode junk Hj c ee ed2 K R sb ep ep2 originals Hv Er Lo Bo w0 x0 x a0 Hx0 Hx v2 y02 y2 b2 adds2 Hy02 Hy2
                 (fun a Ha => Hadds a (or_intror Ha)) C2 p2 i Hi N2) as (y2' & it2 & pr2 & D2 & I2).
    exists y1', it1, pr1, y2', it2, pr2. auto.
  - destruct (ops_low_decode junk Hj c ee ed1 K R sb ep ep1 originals Hv Er Lo Bo w0 x0 x a0 Hx0 Hx v1 y01 y1 b1 adds1 Hy01 Hy1
                 (fun a Ha => Hadds a (or_introl Ha)) C1 p1 i Hi N1) as (y1' & it1 & pr1 & D1 & I1).
    destruct (ops_low_decode junk Hj c ee ed2 K R sb ep ep2 originals Hv Er Lo Bo w0 x0 x a0 Hx0 Hx v2 y02 y2 b2 adds2 Hy02 Hy2
                 (fun a Ha => Hadds a (or_intror Ha)) C2 p2 i Hi N2) as (y2' & it2 & pr2 & D2 & I2).
    exists y1', it1, pr1, y2', it2, pr2. auto.
Qed.
Print Assumptions C11_surplus.
