# C01 round trip, C02 closed-form Cauchy code, C13 linearity, C04 layout, C09 default rate, C11 order/surplus
from .common import *
from . import gf


def gen_roundtrips(rng, tier, n_small, n_edge, n_medium, n_large, engines=None, codecs=None, patterns=None, probes=False, reuse_frac=0.0):
    cases = []
    shapes = shape_stream(rng, n_small, n_edge, n_medium, n_large)
    for n, (K, R, cls) in enumerate(shapes):
        cs = [c for c in codecs_for(K, R) if (codecs is None or c in codecs)]
        if not cs:
            continue
        codec = rng.choice(cs)
        engs = engines or ENGINES
        if cls == 'large':
            engs = [e for e in engs if e in ('nosimd', 'avx2', 'default', 'ssse3')] or engs
        engine = 'default' if codec == 'rs' else rng.choice(engs)
        sb = pick_sb(rng, cls, K, R)
        pat = rng.choice(patterns or PATTERNS)
        seed = rng.randint(1, 10 ** 6)
        c = roundtrip_case('rt%d' % n, rng, codec, engine, K, R, sb, seed, pat, probes=probes,
                           reuse=(reuse_frac > 0 and rng.random() < reuse_frac))
        c.meta['cls'] = cls
        cases.append(c)
    return cases


def check_C01(v, tier, rng):
    q = tier == 'quick'
    cases = gen_roundtrips(rng, tier, 150 if q else 1500, 120 if q else 1500, 40 if q else 400, 3 if q else 24, reuse_frac=0.3)
    # every envelope corner at maximum loss (thorough) / two corners (quick)
    cs = corners()
    for n, (K, R) in enumerate(cs if not q else rng.sample(cs, 2)):
        codec = rng.choice(codecs_for(K, R))
        c = roundtrip_case('corner%d' % n, rng, codec, 'default' if codec == 'rs' else rng.choice(['nosimd', 'avx2']),
                           K, R, 2, rng.randint(1, 10 ** 6), 'maxloss')
        c.meta['cls'] = 'corner'
        cases.append(c)
    # wide high-rate configurations with few losses: ~60000 received originals at work positions >= 32768, the only place
    # where an erasure-locator logarithm can be the literal 0 (below, the residue 0 is always stored as 65535)
    for n in range(2 if q else 12):
        R = rng.choice([3, 8, 21, 64])
        K = rng.randint(56000, 65536 - np2(R))
        c = roundtrip_case('wide%d' % n, rng, rng.choice(['rs', 'def', 'high']), 'default', K, R, 2, rng.randint(1, 10 ** 6), 'exactK')
        c.meta['cls'] = 'wide'
        cases.append(c)
    # one-shot functions
    for n in range(40 if q else 400):
        K, R, cls = shape_stream(rng, 1, 0, 0, 0)[0] if rng.random() < 0.7 else (shape_stream(rng, 0, 1, 0, 0) or [(3, 2, 'small')])[0]
        sb = pick_sb(rng, cls, K, R)
        seed = rng.randint(1, 10 ** 6)
        os_, rs = pick_received(rng, K, R, rng.choice(PATTERNS))
        ops = ['E.new rs default %d %d %d' % (K, R, sb)] + ['E.add ' + orig_tok(seed, i, sb) for i in range(K)] + ['E.encode -']
        ol = ','.join('%d:@o%d' % (i, i) for i in os_) or '-'
        rl = ','.join('%d:@r%d' % (j, j) for j in rs) or '-'
        ops.append('onedec %d %d %s %s' % (K, R, ol, rl))
        cases.append(Case('one%d' % n, ops, dict(codec='oneshot', engine='default', K=K, R=R, sb=sb, seed=seed,
                                                 given_o=sorted(os_), given_r=sorted(rs), cls='oneshot', pattern='oneshot')))
    w = [model_weight(c) for c in cases]
    poison = rng.randint(1, 2 ** 62)
    v.extra['poison_seed'] = poison
    impl = run_cases('impl', cases, 'C01', weights=w, poison=poison)
    model = run_cases('model', cases, 'C01', weights=w)
    for c in cases:
        m = c.meta
        nontriv = len(m['given_o']) < m['K']
        note_case(v, c, (m['K'], m['R'], m['codec'], m['engine'], m['sb'], tuple(m['given_o']), tuple(m['given_r'])) if nontriv else None)
        v.count('%s/%s/%s/%s/sb%s' % (m['cls'], m['codec'], m['engine'], m['pattern'], 'x64' if m['sb'] % 64 == 0 else 'odd'))
        v.count('objects=%s' % ('reused' if m.get('reused') else 'fresh'))
        res = impl.get(c.id)
        if m['codec'] == 'oneshot':
            r = res[-1] if res else None
            exp = expected_restored(m)
            ok = r is not None and r.startswith('ok') and parse_map(parse_list(r[3:] if len(r) > 3 else '-')) == exp
            if not ok:
                v.violation('one-shot decode does not return the withheld originals (K=%d R=%d sb=%d)' % (m['K'], m['R'], m['sb']),
                            {'kind': 'oracle', 'case': c.line()[:200000], 'meta': m, 'impl': (r or '')[:2000]})
        else:
            check_roundtrip(v, c, res, 'C01 round trip')
    corr_report(v, cases, impl, model, 'roundtrip(encode,decode) impl = model')


def cauchy_queries(cases, impl, rng, max_j):
    qs = []
    for c in cases:
        m = c.meta
        res = impl.get(c.id) or []
        pr = parse_round(res[m['enc_idx']]) if len(res) > m['enc_idx'] else None
        if pr is None:
            continue
        R = m['R']
        js = list(range(R)) if R <= max_j else sorted(rng.sample(range(R), max_j))
        m['cauchy_js'] = js
        m['rate_used'] = m['codec'] if m['codec'] in ('high', 'low') else ('high' if rule_high(m['K'], R) else 'low')
        origs = ','.join(orig_tok(m['seed'], i, m['sb']) for i in range(m['K']))
        qs.append('%s cauchy %s %d %d %s %s' % (c.id, m['rate_used'], m['K'], R, ','.join(map(str, js)), origs))
    return qs


def check_C02(v, tier, rng):
    q = tier == 'quick'
    cases = []
    shapes = shape_stream(rng, 120 if q else 1200, 100 if q else 1200, 30 if q else 300, 3 if q else 20)
    for n, (K, R, cls) in enumerate(shapes):
        codec = rng.choice(codecs_for(K, R))
        engine = 'default' if codec == 'rs' else rng.choice(ENGINES if cls != 'large' else ['nosimd', 'avx2'])
        sb = pick_sb(rng, cls, K, R) if rng.random() < 0.6 else rng.choice([64, 128])
        if cls == 'large':
            sb = 2
        seed = rng.randint(1, 10 ** 6)
        reused = rng.random() < 0.3
        if reused:
            # the purity claim covers reused encoders: an earlier round in another configuration, then reset
            ops = earlier_round(rng, codec, engine, both=False) + ['E.reset %d %d %d' % (K, R, sb)]
        else:
            ops = ['E.new %s %s %d %d %d' % (codec, engine, K, R, sb)]
        ops += ['E.add ' + orig_tok(seed, i, sb) for i in range(K)] + ['E.encode -']
        meta = dict(codec=codec, engine=engine, K=K, R=R, sb=sb, seed=seed, cls=cls, enc_idx=len(ops) - 1, reused=reused)
        if sb % 64 == 0 and K * sb < 2 ** 20:
            ops.append('rs16 %d %d %s' % (K, R, ','.join('@o%d' % i for i in range(K))))
            meta['rs16_idx'] = len(ops) - 1
        cases.append(Case('cf%d' % n, ops, meta))
    w = [model_weight(c) for c in cases]
    poison = rng.randint(1, 2 ** 62)
    v.extra['poison_seed'] = poison
    impl = run_cases('impl', cases, 'C02', weights=w, poison=poison)
    model = run_cases('model', cases, 'C02', weights=w)
    qs = cauchy_queries(cases, impl, rng, 24 if q else 64)
    orc = run_oracle(qs, 'C02')
    for c in cases:
        m = c.meta
        res = impl.get(c.id) or []
        note_case(v, c, (m['K'], m['R'], m['codec'], m['engine'], m['sb'], m['seed']))
        v.count('%s/%s/%s/sb%s' % (m['cls'], m['codec'], m['engine'], 'x64' if m['sb'] % 64 == 0 else 'odd'))
        v.count('objects=%s' % ('reused' if m.get('reused') else 'fresh'))
        pr = parse_round(res[m['enc_idx']]) if len(res) > m['enc_idx'] else None
        if pr is None:
            v.violation('encode failed for a valid configuration', {'kind': 'oracle', 'case': c.line()[:100000], 'meta': m, 'impl': res[-1:]})
            continue
        rec = pr[0]
        exp = (orc.get(c.id) or [''])[0].split(',')
        for j, e in zip(m.get('cauchy_js', []), exp):
            if j >= len(rec) or rec[j] != e:
                v.violation('recovery shard %d differs from the closed-form scaled Cauchy code (%s rate, K=%d R=%d sb=%d, %s/%s)'
                            % (j, m['rate_used'], m['K'], m['R'], m['sb'], m['codec'], m['engine']),
                            {'kind': 'oracle', 'oracle': 'closed-form G[j][i] (Spec.recovery_*_spec)', 'case': c.line()[:100000],
                             'meta': m, 'j': j, 'impl': rec[j] if j < len(rec) else None, 'closed_form': e})
                break
        if 'rs16_idx' in m and len(res) > m['rs16_idx']:
            # ancestor release reed-solomon-16 0.1.0 picks its rate by the same rule as the default codec
            r16 = res[m['rs16_idx']]
            if m['rate_used'] == ('high' if rule_high(m['K'], m['R']) else 'low'):
                v.count('rs16_compared')
                if r16.startswith('ok ') and parse_list(r16[3:]) != rec:
                    v.violation('recovery bytes differ from reed-solomon-16 0.1.0 (K=%d R=%d sb=%d)' % (m['K'], m['R'], m['sb']),
                                {'kind': 'oracle', 'oracle': 'reed-solomon-16 0.1.0', 'case': c.line()[:100000], 'meta': m})
    corr_report(v, cases, impl, model, 'encode impl = model', ignore=lambda c, k, a, b: c.ops[k].startswith('rs16'))


def check_C13(v, tier, rng):
    q = tier == 'quick'
    cases = []
    shapes = shape_stream(rng, 150 if q else 1500, 100 if q else 1000, 30 if q else 300, 0)
    for n, (K, R, cls) in enumerate(shapes):
        codec = rng.choice(codecs_for(K, R))
        engine = 'default' if codec == 'rs' else rng.choice(ENGINES)
        sb = rng.choice([2, 64, 66, 130]) if cls != 'medium' else rng.choice([2, 66])
        s1, s2 = rng.randint(1, 10 ** 6), rng.randint(1, 10 ** 6)
        c = rng.choice([0, 1, 2, 3, 0xACCA, 0xFFFF, rng.randint(1, 65535), rng.randint(1, 65535)])
        d1 = [orig_bytes(s1, i, sb) for i in range(K)]
        d2 = [orig_bytes(s2, i, sb) for i in range(K)]
        dx = [bytes(a ^ b for a, b in zip(x, y)) for x, y in zip(d1, d2)]
        dc = [gf.scale_shard(x, c) for x in d1]
        ops = []
        reuse = rng.random() < 0.5      # one encoder for all five data sets (rounds separated by drops) or fresh ones
        for t, data in enumerate((d1, d2, dx, dc, [bytes(sb)] * K)):
            ops.append(('E.reset %d %d %d' % (K, R, sb)) if (reuse and t) else ('E.new %s %s %d %d %d' % (codec, engine, K, R, sb)))
            ops += ['E.add ' + hexs(x) for x in data]
            ops.append('E.encode -')
        cases.append(Case('lin%d' % n, ops, dict(codec=codec, engine=engine, K=K, R=R, sb=sb, c=c, cls=cls, s1=s1, s2=s2)))
    poison = rng.randint(1, 2 ** 62)
    v.extra['poison_seed'] = poison
    impl = run_cases('impl', cases, 'C13', poison=poison)
    model = run_cases('model', cases, 'C13')
    for c in cases:
        m = c.meta
        K = m['K']
        res = impl.get(c.id) or []
        note_case(v, c, (K, m['R'], m['codec'], m['engine'], m['sb'], m['s1'], m['s2'], m['c']))
        v.count('%s/%s/%s/sb%d' % (m['cls'], m['codec'], m['engine'], m['sb']))
        outs = []
        for t in range(5):
            idx = (K + 2) * t + K + 1
            pr = parse_round(res[idx]) if len(res) > idx else None
            outs.append([unhex(x) for x in pr[0]] if pr else None)
        if any(o is None for o in outs):
            v.violation('encode failed for a valid configuration', {'kind': 'oracle', 'case': c.line()[:100000], 'meta': m})
            continue
        r1, r2, rx, rc, rz = outs
        why = None
        if any(bytes(a ^ b for a, b in zip(x, y)) != z for x, y, z in zip(r1, r2, rx)):
            why = 'recovery(d1 xor d2) != recovery(d1) xor recovery(d2)'
        elif any(any(z) for z in rz):
            why = 'all-zero originals give non-zero recovery'
        elif any(gf.scale_shard(x, m['c']) != y for x, y in zip(r1, rc)):
            why = 'recovery(c * d) != c * recovery(d) for c=%d' % m['c']
        if why:
            v.violation('%s (K=%d R=%d sb=%d %s/%s)' % (why, K, m['R'], m['sb'], m['codec'], m['engine']),
                        {'kind': 'oracle', 'case': c.line()[:100000], 'meta': m})
    corr_report(v, cases, impl, model, 'encode impl = model')


def slot_positions(sb, k):
    """byte offsets (lo, hi) of symbol slot k in a shard of sb bytes (documented placement)."""
    qb, r = divmod(k, 32)
    full = sb // 64
    if qb < full:
        return 64 * qb + r, 64 * qb + 32 + r
    t = sb % 64
    return 64 * full + r, 64 * full + t // 2 + r


def check_C04(v, tier, rng):
    q = tier == 'quick'
    sizes = list(range(2, 202, 2)) + [254, 256, 258, 1022, 1024, 1026, 4094, 4096, 4098]
    cases = []
    n = 0
    for sb in sizes if not q else sizes[::1]:
        reps = 1 if q else 6
        for _ in range(reps):
            K, R, cls = shape_stream(rng, 1, 0, 0, 0)[0] if rng.random() < 0.6 else (shape_stream(rng, 0, 1, 0, 0) or [(5, 3, 'edge')])[0]
            if sb > 300:
                K, R = min(K, 9), min(R, 9)
            codec = rng.choice(codecs_for(K, R))
            engine = 'default' if codec == 'rs' else rng.choice(ENGINES)
            seed = rng.randint(1, 10 ** 6)
            c = roundtrip_case('lay%d' % n, rng, codec, engine, K, R, sb, seed, rng.choice(['maxloss', 'exactK', 'surplus', 'burst']))
            nslots = sb // 2
            slots = sorted(set([0, nslots - 1] + [rng.randrange(nslots) for _ in range(2)] + ([32 * (sb // 64)] if sb % 64 and sb > 64 else [])))
            c.meta.update(cls=cls, slots=slots, base_len=len(c.ops))
            # every chosen slot coded on its own as 2-byte shards
            for s in slots:
                lo, hi = slot_positions(sb, s)
                c.ops.append('E.new %s %s %d %d 2' % (codec, engine, K, R))
                for i in range(K):
                    ob = orig_bytes(seed, i, sb)
                    c.ops.append('E.add %02x%02x' % (ob[lo], ob[hi]))
                c.ops.append('E.encode -')
            cases.append(c)
            n += 1
    w = [model_weight(c) for c in cases]
    poison = rng.randint(1, 2 ** 62)
    impl = run_cases('impl', cases, 'C04', poison=poison, weights=w)
    model = run_cases('model', cases, 'C04', weights=w)
    v.extra['poison_seed'] = poison
    for c in cases:
        m = c.meta
        res = impl.get(c.id) or []
        note_case(v, c, (m['K'], m['R'], m['codec'], m['engine'], m['sb'], m['seed'], m['pattern']))
        v.count('sb%%64=%d/%s/%s' % (m['sb'] % 64, m['codec'], m['engine']))
        if not check_roundtrip(v, c, res[:m['base_len']], 'C04 round trip (sb=%d)' % m['sb']):
            continue
        enc = parse_round(res[m['enc_idx']])
        dec = parse_round(res[m['dec_idx']])
        bad = [x for x in enc[0] if len(x) != 2 * m['sb']] + [x for x in dec[0] if len(x.split(':')[1]) != 2 * m['sb']]
        if bad or len(enc[0]) != m['R']:
            v.violation('output shard length differs from the configured shard size %d' % m['sb'],
                        {'kind': 'oracle', 'case': c.line()[:100000], 'meta': m})
            continue
        for t, s in enumerate(m['slots']):
            idx = m['base_len'] + (m['K'] + 2) * t + m['K'] + 1
            pr = parse_round(res[idx]) if len(res) > idx else None
            lo, hi = slot_positions(m['sb'], s)
            want = ['%s%s' % (r[2 * lo:2 * lo + 2], r[2 * hi:2 * hi + 2]) for r in enc[0]]
            if pr is None or pr[0] != want:
                v.violation('slot %d of the recovery shards (sb=%d) differs from coding that slot alone as 2-byte shards (K=%d R=%d %s/%s)'
                            % (s, m['sb'], m['K'], m['R'], m['codec'], m['engine']),
                            {'kind': 'oracle', 'case': c.line()[:100000], 'meta': m, 'slot': s, 'byte_offsets': [lo, hi],
                             'alone': pr[0] if pr else None, 'in_shard': want})
                break
    corr_report(v, cases, impl, model, 'layout: round trip and per-slot encode impl = model')


def check_C09(v, tier, rng):
    q = tier == 'quick'
    cases = []
    shapes = []
    for j in range(0, 9 if q else 12):
        for dk in (-1, 0, 1):
            for dr in (-1, 0, 1):
                K, R = 2 ** j + dk, 2 ** j + dr
                if envelope(K, R):
                    shapes.append((K, R, 'tie'))
    shapes += shape_stream(rng, 60 if q else 600, 60 if q else 600, 20 if q else 200, 2 if q else 16)
    for n, (K, R, cls) in enumerate(shapes):
        ded = 'high' if rule_high(K, R) else 'low'
        if not codec_ok(ded, K, R):
            ded = None
        engine = rng.choice(ENGINES if cls != 'large' else ['nosimd', 'avx2'])
        sb = pick_sb(rng, cls, K, R)
        seed = rng.randint(1, 10 ** 6)
        pat = rng.choice(['exactK', 'maxloss', 'surplus'])
        # same received set for all variants: build with a fixed sub-rng
        sub = rng.randint(0, 2 ** 30)
        variants = [('def', engine), ('rs', 'default'), ('def', 'default')] + ([(ded, engine)] if ded else [])
        vs = []
        for t, (codec, eng) in enumerate(variants):
            c = roundtrip_case('dr%d_%d' % (n, t), random.Random(sub), codec, eng, K, R, sb, seed, pat)
            c.meta.update(cls=cls, group=n, dedicated=ded)
            vs.append(c)
        # cross decode: encode with dedicated, decode with default (and the reverse)
        if ded:
            c = roundtrip_case('dr%d_x' % n, random.Random(sub), ded, engine, K, R, sb, seed, pat, dec_codec='def')
            c.meta.update(cls=cls, group=n, dedicated=ded)
            vs.append(c)
        # history crossing rates before the measured round
        K0, R0 = (R, K) if envelope(R, K) else (K, R)
        c = roundtrip_case('dr%d_h' % n, random.Random(sub), 'def', engine, K, R, sb, seed, pat)
        c.ops = ['E.new def %s %d %d %d' % (engine, K0, R0, 64), 'E.reset %d %d %d' % (K, R, sb)] + c.ops[1:c.meta['enc_idx'] + 1] + \
                ['D.new def %s %d %d %d' % (engine, K0, R0, 64), 'D.reset %d %d %d' % (K, R, sb)] + c.ops[c.meta['enc_idx'] + 2:]
        c.meta.update(cls=cls, group=n, dedicated=ded, enc_idx=c.meta['enc_idx'] + 1, dec_idx=c.meta['dec_idx'] + 2)
        vs.append(c)
        cases += vs
    w = [model_weight(c) for c in cases]
    impl = run_cases('impl', cases, 'C09', weights=w)
    model = run_cases('model', cases, 'C09', weights=w)
    groups = {}
    for c in cases:
        groups.setdefault(c.meta['group'], []).append(c)
    for g, cs in groups.items():
        m0 = cs[0].meta
        note_case(v, cs[0], (m0['K'], m0['R'], m0['engine'], m0['sb'], m0['seed']))
        v.count('%s/%s/ded=%s' % (m0['cls'], m0['engine'], m0['dedicated']))
        ref = None
        for c in cs:
            res = impl.get(c.id) or []
            if not check_roundtrip(v, c, res, 'C09 round trip'):
                break
            enc = parse_round(res[c.meta['enc_idx']])[0]
            dec = parse_round(res[c.meta['dec_idx']])[0]
            if ref is None:
                ref = (enc, dec, c)
            elif (enc, dec) != ref[:2]:
                v.violation('default-rate codec and %s/%s disagree byte for byte (K=%d R=%d sb=%d; rule says %s)'
                            % (c.meta['codec'], c.meta['engine'], m0['K'], m0['R'], m0['sb'], 'high' if rule_high(m0['K'], m0['R']) else 'low'),
                            {'kind': 'oracle', 'case_a': ref[2].line()[:100000], 'case_b': c.line()[:100000], 'meta': c.meta})
                break
    corr_report(v, cases, impl, model, 'default/dedicated/wrapper round trips impl = model')


def check_C11(v, tier, rng):
    q = tier == 'quick'
    cases = []
    shapes = shape_stream(rng, 80 if q else 800, 60 if q else 600, 15 if q else 150, 1 if q else 8)
    for n, (K, R, cls) in enumerate(shapes):
        codec = rng.choice(codecs_for(K, R))
        engine = 'default' if codec == 'rs' else rng.choice(ENGINES if cls != 'large' else ['nosimd', 'avx2'])
        sb = pick_sb(rng, cls, K, R)
        seed = rng.randint(1, 10 ** 6)
        os_, rs = pick_received(rng, K, R, rng.choice(['exactK', 'maxloss', 'burst', 'first_last', 'none_missing']))
        pool_o = [i for i in range(K) if i not in os_]
        pool_r = [j for j in range(R) if j not in rs]
        variants = []
        for t in range(4):
            o2, r2 = list(os_), list(rs)
            if t >= 2:      # supersets
                o2 += rng.sample(pool_o, rng.randint(0, len(pool_o)))
                r2 += rng.sample(pool_r, rng.randint(0, len(pool_r))) if t == 2 else pool_r
            variants.append((o2, r2))
        head = ['E.new %s %s %d %d %d' % (codec, engine, K, R, sb)] + ['E.add ' + orig_tok(seed, i, sb) for i in range(K)] + ['E.encode -']
        ops = list(head)
        dec_idx = []
        givens = []
        reuse = rng.random() < 0.5     # the selections are given to ONE decoder object, round after round
        for vi, (o2, r2) in enumerate(variants):
            if vi == 0 or not reuse:
                ops.append('D.new %s %s %d %d %d' % (codec, engine, K, R, sb))
            elif rng.random() < 0.5:
                ops.append('D.reset %d %d %d' % (K, R, sb))
            adds = [('o', i) for i in o2] + [('r', j) for j in r2]
            mode = rng.choice(['shuffle', 'orig_first', 'rec_first', 'reverse'])
            if mode == 'shuffle':
                rng.shuffle(adds)
            elif mode == 'rec_first':
                adds = [a for a in adds if a[0] == 'r'] + [a for a in adds if a[0] == 'o']
            elif mode == 'reverse':
                adds.reverse()
            ops += ['D.addo %d @o%d' % (i, i) if t == 'o' else 'D.addr %d @r%d' % (i, i) for t, i in adds]
            ops.append('D.decode ' + ','.join(str(i) for i in sorted(set([0, K - 1] + o2[:2]))))
            dec_idx.append(len(ops) - 1)
            givens.append(sorted(o2))
        cases.append(Case('ord%d' % n, ops, dict(codec=codec, engine=engine, K=K, R=R, sb=sb, seed=seed, cls=cls,
                                                 dec_idxs=dec_idx, givens=givens, given_r=sorted(rs), reused=reuse)))
    w = [4 * model_weight(c) for c in cases]
    poison = rng.randint(1, 2 ** 62)
    v.extra['poison_seed'] = poison
    impl = run_cases('impl', cases, 'C11', weights=w, poison=poison)
    model = run_cases('model', cases, 'C11', weights=w)
    for c in cases:
        m = c.meta
        res = impl.get(c.id) or []
        note_case(v, c, (m['K'], m['R'], m['codec'], m['engine'], m['sb'], m['seed'], tuple(m['givens'][0]), tuple(m['given_r'])))
        v.count('%s/%s/%s' % (m['cls'], m['codec'], m['engine']))
        v.count('decoder=%s' % ('one object for all selections' if m.get('reused') else 'fresh per selection'))
        for di, given in zip(m['dec_idxs'], m['givens']):
            pr = parse_round(res[di]) if len(res) > di else None
            exp = {i: orig_bytes(m['seed'], i, m['sb']).hex() for i in range(m['K']) if i not in given}
            ok = pr is not None and parse_map(pr[0]) == exp and all(
                (val == 'none') == (i in given or i >= m['K']) for i, val in pr[2].items())
            if not ok:
                v.violation('decode result depends on arrival order / surplus, or reports a given original (K=%d R=%d sb=%d %s/%s)'
                            % (m['K'], m['R'], m['sb'], m['codec'], m['engine']),
                            {'kind': 'oracle', 'case': c.line()[:100000], 'meta': m, 'decode_op': di, 'impl': (res[di] if len(res) > di else None)})
                break
    corr_report(v, cases, impl, model, 'decode under permutations/supersets impl = model')
