(* C17: the capacity bookkeeping of the model (ew_cap / dw_cap / dw_bits are lower
   bounds of what the object owns; s_alloc says whether the last call had to grow a buffer). *)
From Coq Require Import NArith Lia Bool List FMapPositive.
From RS.Gen Require Import Prelude GenConsts.
From RS.Model Require Import Field Tables Sched Codec Layout Machine.
Import ListNotations.
Local Open Scope N_scope.

Definition enc_need (r : rate) (K R sb : N) : N := enc_work_count r K R * blocks_of sb.
Definition dec_need (r : rate) (K R sb : N) : N := dec_work_count r K R * blocks_of sb.
Definition dec_bits (r : rate) (K R : N) : N :=
  N.max ((match r with High => np2 R | Low => 0 end) + K) ((match r with High => 0 | Low => np2 K end) + R).

Lemma encwork_reset_alloc w r K R sb :
  snd (encwork_reset w r K R sb) = true <-> ew_cap w < enc_need r K R sb.
Proof. unfold encwork_reset, enc_need. cbn [snd]. apply N.ltb_lt. Qed.

Lemma encwork_reset_cap w r K R sb :
  ew_cap (fst (encwork_reset w r K R sb)) = N.max (ew_cap w) (enc_need r K R sb).
Proof. reflexivity. Qed.

Lemma decwork_reset_alloc w r K R sb :
  snd (decwork_reset w r K R sb) = true <->
  (dw_cap w < dec_need r K R sb \/ dw_bits w < dec_bits r K R).
Proof.
  unfold decwork_reset, dec_need, dec_bits. cbn [snd]. rewrite orb_true_iff, !N.ltb_lt. reflexivity.
Qed.

Lemma decwork_reset_cap w r K R sb :
  dw_cap (fst (decwork_reset w r K R sb)) = N.max (dw_cap w) (dec_need r K R sb) /\
  dw_bits (fst (decwork_reset w r K R sb)) = N.max (dw_bits w) (dec_bits r K R).
Proof. split; reflexivity. Qed.

(* what the objects and stashes of a state own *)
Definition held_enc (s : state) : N :=
  N.max (match s_enc s with Some x => ew_cap (e_work x) | None => 0 end)
        (match s_encwork s with Some w => ew_cap w | None => 0 end).

Definition is_config_op (o : op) : bool :=
  match o with
  | ENew _ _ _ _ _ | ENewW _ _ _ _ _ | EReset _ _ _ | DNew _ _ _ _ _ | DNewW _ _ _ _ _ | DReset _ _ _ => true
  | _ => false
  end.

Section A.
Variable junk : N -> N -> N -> N.

(* rounds never allocate: only new / reset can set the allocation flag *)
Theorem round_ops_no_alloc s o : is_config_op o = false -> s_alloc (fst (step junk s o)) = false.
Proof.
  intros H. unfold step. destruct o; try discriminate H; cbn;
  repeat match goal with
  | |- context [match ?x with _ => _ end] => destruct x eqn:?; cbn
  | |- context [let '(_, _) := ?x in _] => destruct x eqn:?; cbn
  end; reflexivity.
Qed.

(* reset allocates only if the configuration needs more than the object holds *)
Theorem enc_reset_alloc_only_if_needed s x K R sb :
  s_enc s = Some x -> s_alloc (fst (step junk s (EReset K R sb))) = true ->
  ew_cap (e_work x) < enc_need (rate_of (e_codec x) K R) K R sb.
Proof.
  intros Hx. unfold step. cbn. rewrite Hx. unfold enc_make.
  destruct (validateb _ _ _ _); cbn; [discriminate|].
  unfold enc_need. intros H. apply N.ltb_lt. exact H.
Qed.

Theorem dec_reset_alloc_only_if_needed s x K R sb :
  s_dec s = Some x -> s_alloc (fst (step junk s (DReset K R sb))) = true ->
  dw_cap (d_work x) < dec_need (rate_of (d_codec x) K R) K R sb \/
  dw_bits (d_work x) < dec_bits (rate_of (d_codec x) K R) K R.
Proof.
  intros Hx. unfold step. cbn. rewrite Hx. unfold dec_make.
  destruct (validateb _ _ _ _); cbn; [discriminate|].
  unfold dec_need, dec_bits. intros H. apply orb_true_iff in H. rewrite !N.ltb_lt in H. exact H.
Qed.

(* handing the working space to a new codec: same rule, with the stashed work *)
Theorem enc_neww_alloc_only_if_needed s w c e K R sb :
  c <> CRs -> s_encwork s = Some w -> s_alloc (fst (step junk s (ENewW c e K R sb))) = true ->
  ew_cap w < enc_need (rate_of c K R) K R sb.
Proof.
  intros Hc Hw. unfold step. destruct c; [congruence|..]; cbn; rewrite Hw; unfold enc_make;
  (destruct (validateb _ _ _ _); cbn; [discriminate|]);
  unfold enc_need; intros H; apply N.ltb_lt; exact H.
Qed.

(* what an encoder holds never shrinks: reset keeps or grows, rounds keep *)
Lemma enc_make_cap c e K R sb w x a : enc_make c e K R sb w = inl (x, a) ->
  ew_cap w <= ew_cap (e_work x) /\ (a = true <-> ew_cap w < enc_need (rate_of c K R) K R sb).
Proof.
  unfold enc_make. destruct (validateb c K R sb); [discriminate|]. cbn. intros [= <- <-]. cbn.
  split; [lia|]. unfold enc_need. apply N.ltb_lt.
Qed.
Lemma enc_add_cap x shard x' : enc_add x shard = inl x' -> ew_cap (e_work x') = ew_cap (e_work x).
Proof.
  unfold enc_add. destruct (_ =? _); [discriminate|]. destruct (negb _); [discriminate|].
  intros [= <-]. reflexivity.
Qed.
Lemma enc_encode_cap ep x probes : ew_cap (e_work (fst (enc_encode junk ep x probes))) = ew_cap (e_work x).
Proof. unfold enc_encode. destruct (negb _); reflexivity. Qed.

Lemma dec_make_cap c e K R sb w x a : dec_make c e K R sb w = inl (x, a) ->
  dw_cap w <= dw_cap (d_work x) /\ dw_bits w <= dw_bits (d_work x) /\
  (a = true <-> dw_cap w < dec_need (rate_of c K R) K R sb \/ dw_bits w < dec_bits (rate_of c K R) K R).
Proof.
  unfold dec_make. destruct (validateb c K R sb); [discriminate|]. cbn. intros [= <- <-]. cbn.
  split; [lia|]. split; [lia|]. unfold dec_need, dec_bits. rewrite orb_true_iff, !N.ltb_lt. reflexivity.
Qed.
End A.
