(* C04, block view: inserting a shard of ANY even size into stale 64-byte blocks the way
   Shards::insert does, undoing the last-chunk encoding and cutting to shard_bytes returns the
   shard, whatever the stale bytes. *)
From Coq Require Import NArith Arith Lia Bool List.
From RS.Model Require Import Field Layout.
From RS.Proofs Require Import SchedEquiv.
Import ListNotations.

Lemma insert_tail_undo (old tail : list N) h : length old = 64%nat -> length tail = (h + h)%nat -> (0 < h)%nat -> (h < 32)%nat ->
  let b := insert_tail old tail in
  length b = 64%nat /\ firstn (h + h) (firstn h b ++ firstn h (skipn 32 b) ++ skipn (h + h) b) = tail.
Proof.
  intros Lo Lt H0 H32. unfold insert_tail. rewrite Lt. replace (Nat.div2 (h + h)) with h by (clear; induction h; cbn; [reflexivity|rewrite Nat.add_succ_r; cbn; f_equal; assumption]).
  replace (h + h - h)%nat with h by lia. cbv zeta.
  set (A := firstn h tail). set (B := firstn (32 - h) (skipn h old)). set (C := skipn h tail). set (D := skipn (32 + h) old).
  assert (LA : length A = h) by (unfold A; rewrite firstn_length; lia).
  assert (LB : length B = (32 - h)%nat) by (unfold B; rewrite firstn_length, skipn_length; lia).
  assert (LC : length C = h) by (unfold C; rewrite skipn_length; lia).
  assert (LD : length D = (32 - h)%nat) by (unfold D; rewrite skipn_length; lia).
  split; [rewrite !app_length; lia|].
  (* firstn h (A ++ B ++ C ++ D) = A *)
  rewrite (firstn_app_le' h A) by lia. rewrite (firstn_all2 A) by lia.
  (* skipn 32 (A ++ B ++ C ++ D) = C ++ D *)
  assert (E32 : skipn 32 (A ++ B ++ C ++ D) = C ++ D).
  { rewrite app_assoc. rewrite skipn_app. rewrite skipn_all2 by (rewrite app_length; lia). rewrite app_length, LA, LB.
    replace (32 - (h + (32 - h)))%nat with 0%nat by lia. reflexivity. }
  rewrite E32. rewrite (firstn_app_le' h C) by lia. rewrite (firstn_all2 C) by lia.
  rewrite firstn_app, LA. replace (h + h - h)%nat with h by lia. rewrite (firstn_all2 A) by lia.
  rewrite firstn_app, LC, Nat.sub_diag. cbn [firstn]. rewrite app_nil_r. rewrite (firstn_all2 C) by lia.
  unfold A, C. apply firstn_skipn.
Qed.

Lemma undo_last_cons sb (b : block) bl : (64 <= sb)%nat -> undo_last sb (b :: bl) = b :: undo_last (sb - 64) bl.
Proof.
  intros H. unfold undo_last.
  assert (E1 : Nat.div sb 64 = S (Nat.div (sb - 64) 64)).
  { replace sb with ((sb - 64) + 1 * 64)%nat at 1 by lia. rewrite Nat.div_add by lia. lia. }
  assert (E2 : Nat.modulo sb 64 = Nat.modulo (sb - 64) 64).
  { replace sb with ((sb - 64) + 1 * 64)%nat at 1 by lia. rewrite Nat.mod_add by lia. reflexivity. }
  rewrite E1, E2. cbv zeta. destruct (Nat.eqb (Nat.modulo (sb - 64) 64) 0); [reflexivity|]. reflexivity.
Qed.

Theorem block_roundtrip : forall (old : list block) (shard : list N) q, length shard = (q + q)%nat ->
  Forall (fun b => length b = 64%nat) old -> (blocks_needed (length shard) <= length old)%nat ->
  read_shard (length shard) (insert_blocks old shard) = shard.
Proof.
  induction old as [|b old IH]; intros shard q Lq Fo Hn.
  - unfold blocks_needed in Hn. cbn [length] in Hn. assert (H0 : length shard = 0%nat).
    { destruct (Nat.eq_dec (length shard) 0) as [E|E]; [exact E|]. exfalso.
      assert (1 <= Nat.div (length shard + 63) 64)%nat by (apply Nat.div_le_lower_bound; lia). lia. }
    destruct shard; [reflexivity|discriminate].
  - inversion Fo as [|? ? Lb Fo']; subst. cbn [insert_blocks].
    destruct (Nat.leb_spec 64 (length shard)) as [Hge|Hlt].
    + unfold read_shard. rewrite undo_last_cons by exact Hge. cbn [concat].
      assert (L1 : length (firstn 64 shard) = 64%nat) by (rewrite firstn_length; lia).
      rewrite firstn_app, L1. rewrite (firstn_all2 (firstn 64 shard)) by lia.
      assert (Ls : length (skipn 64 shard) = (length shard - 64)%nat) by apply skipn_length.
      rewrite <- Ls. fold (read_shard (length (skipn 64 shard)) (insert_blocks old (skipn 64 shard))).
      rewrite (IH (skipn 64 shard) (q - 32)%nat); [apply firstn_skipn|rewrite Ls; lia|exact Fo'|].
      rewrite Ls. unfold blocks_needed in *. cbn [length] in Hn.
      replace (length shard + 63)%nat with ((length shard - 64 + 63) + 1 * 64)%nat in Hn by lia. rewrite Nat.div_add in Hn by lia. lia.
    + destruct shard as [|s0 shard'] eqn:Es; [reflexivity|].
      assert (Hne : (0 < length shard)%nat) by (rewrite Es; cbn; lia). rewrite <- Es in *. clear Es s0 shard'.
      assert (Hq : (0 < q)%nat /\ (q < 32)%nat) by lia. destruct Hq as [Hq0 Hq32].
      destruct (insert_tail_undo b shard q Lb Lq Hq0 Hq32) as [LB EB]. cbv zeta in EB.
      unfold read_shard, undo_last. rewrite Nat.div_small by lia. rewrite Nat.mod_small by lia.
      destruct (Nat.eqb_spec (length shard) 0) as [E0|E0]; [lia|]. cbv zeta. cbn [firstn skipn app concat].
      rewrite Lq. replace (Nat.div2 (q + q)) with q by (clear; induction q; cbn; [reflexivity|rewrite Nat.add_succ_r; cbn; f_equal; assumption]).
      set (X := firstn q (insert_tail b shard) ++ firstn q (skipn 32 (insert_tail b shard)) ++ skipn (q + q) (insert_tail b shard)) in *.
      assert (LX : (q + q <= length X)%nat).
      { unfold X. rewrite !app_length, !firstn_length, !skipn_length, LB. lia. }
      rewrite firstn_app_le' by exact LX. exact EB.
Qed.

(* the packed view of the model is the block view: the lanes of the inserted blocks, restricted
   to the size/2 slots of the shard, are syms_of_bytes of the shard, for every even size *)
Definition slot_lanes (sb : nat) (bl : list block) : list N :=
  let whole := Nat.div sb 64 in
  concat (map block_syms (firstn whole bl)) ++
  match skipn whole bl with [] => [] | b :: _ => firstn (Nat.div2 (Nat.modulo sb 64)) (block_syms b) end.

Lemma div2_dbl q : Nat.div2 (q + q) = q.
Proof. induction q; cbn; [reflexivity|rewrite Nat.add_succ_r; cbn; f_equal; assumption]. Qed.

Lemma firstn_combine {A B} n : forall (a : list A) (b : list B), firstn n (combine a b) = combine (firstn n a) (firstn n b).
Proof. induction n as [|n IH]; intros [|x a] [|y b]; cbn; try reflexivity. f_equal. apply IH. Qed.

Lemma tail_lanes (old tail : list N) h : length old = 64%nat -> length tail = (h + h)%nat -> (h < 32)%nat ->
  firstn h (block_syms (insert_tail old tail)) = group_syms tail.
Proof.
  intros Lo Lt H32. unfold block_syms, group_syms, insert_tail. rewrite Lt, div2_dbl. replace (h + h - h)%nat with h by lia.
  set (A := firstn h tail). set (B := firstn (32 - h) (skipn h old)). set (C := skipn h tail). set (D := skipn (32 + h) old).
  assert (LA : length A = h) by (unfold A; rewrite firstn_length; lia).
  assert (LB : length B = (32 - h)%nat) by (unfold B; rewrite firstn_length, skipn_length; lia).
  assert (LC : length C = h) by (unfold C; rewrite skipn_length; lia).
  assert (LD : length D = (32 - h)%nat) by (unfold D; rewrite skipn_length; lia).
  assert (L : length (A ++ B ++ C ++ D) = 64%nat) by (rewrite !app_length; lia). rewrite L. change (Nat.div2 64) with 32%nat.
  rewrite firstn_map, firstn_combine.
  assert (E1 : firstn h (firstn 32 (A ++ B ++ C ++ D)) = A).
  { rewrite firstn_firstn. replace (Nat.min h 32) with h by lia. rewrite firstn_app_le' by lia. apply firstn_all2. lia. }
  assert (E2 : firstn h (skipn 32 (A ++ B ++ C ++ D)) = C).
  { rewrite app_assoc, skipn_app. rewrite skipn_all2 by (rewrite app_length; lia). rewrite app_length, LA, LB.
    replace (32 - (h + (32 - h)))%nat with 0%nat by lia. cbn [skipn app]. rewrite firstn_app_le' by lia. apply firstn_all2. lia. }
  rewrite E1, E2. reflexivity.
Qed.

Lemma sob_cons f (bs : list N) : (0 < length bs)%nat ->
  syms_of_bytes_fuel (S f) bs = group_syms (firstn 64 bs) ++ syms_of_bytes_fuel f (skipn 64 bs).
Proof. intros H. destruct bs; [cbn in H; lia|reflexivity]. Qed.

Theorem packed_is_blocks : forall (old : list block) (shard : list N) q f, length shard = (q + q)%nat ->
  Forall (fun b => length b = 64%nat) old -> (blocks_needed (length shard) <= length old)%nat -> (length shard < 64 * f)%nat ->
  slot_lanes (length shard) (insert_blocks old shard) = syms_of_bytes_fuel f shard.
Proof.
  induction old as [|b old IH]; intros shard q f Lq Fo Hn Hf.
  - unfold blocks_needed in Hn. cbn [length] in Hn. assert (H0 : length shard = 0%nat).
    { destruct (Nat.eq_dec (length shard) 0) as [E|E]; [exact E|]. exfalso.
      assert (1 <= Nat.div (length shard + 63) 64)%nat by (apply Nat.div_le_lower_bound; lia). lia. }
    destruct shard; [|discriminate]. destruct f; reflexivity.
  - inversion Fo as [|? ? Lb Fo']; subst. cbn [insert_blocks]. destruct f as [|f]; [lia|].
    destruct (Nat.leb_spec 64 (length shard)) as [Hge|Hlt].
    + rewrite sob_cons by lia. unfold slot_lanes.
      assert (E1 : Nat.div (length shard) 64 = S (Nat.div (length shard - 64) 64)).
      { replace (length shard) with ((length shard - 64) + 1 * 64)%nat at 1 by lia. rewrite Nat.div_add by lia. lia. }
      assert (E2 : Nat.modulo (length shard) 64 = Nat.modulo (length shard - 64) 64).
      { replace (length shard) with ((length shard - 64) + 1 * 64)%nat at 1 by lia. rewrite Nat.mod_add by lia. reflexivity. }
      rewrite E1, E2. cbn [firstn skipn map concat]. rewrite <- app_assoc. f_equal.
      assert (Ls : length (skipn 64 shard) = (length shard - 64)%nat) by apply skipn_length.
      rewrite <- Ls. fold (slot_lanes (length (skipn 64 shard)) (insert_blocks old (skipn 64 shard))).
      apply (IH (skipn 64 shard) (q - 32)%nat f); [rewrite Ls; lia|exact Fo'| |rewrite Ls; lia].
      rewrite Ls. unfold blocks_needed in *. cbn [length] in Hn.
      replace (length shard + 63)%nat with ((length shard - 64 + 63) + 1 * 64)%nat in Hn by lia. rewrite Nat.div_add in Hn by lia. lia.
    + destruct shard as [|s0 shard'] eqn:Es; [reflexivity|].
      assert (Hne : (0 < length shard)%nat) by (rewrite Es; cbn; lia). rewrite <- Es in *. clear Es s0 shard'.
      rewrite sob_cons by exact Hne. rewrite firstn_all2 by lia. rewrite skipn_all2 by lia.
      assert (E0 : syms_of_bytes_fuel f [] = []) by (destruct f; reflexivity). rewrite E0, app_nil_r.
      unfold slot_lanes. rewrite Nat.div_small by lia. rewrite Nat.mod_small by lia. cbn [firstn skipn map concat app].
      rewrite Lq, div2_dbl. apply tail_lanes; [exact Lb|exact Lq|lia].
Qed.
