(* C05: a reused object behaves like a fresh one.  Two machine states that hold the same
   codec objects up to the capacity they own (and arbitrary epochs / allocation flags) give the
   same results for every continuation, whatever the stale memory. *)
From Coq Require Import NArith Arith Lia Bool List FMapPositive.
From RS.Gen Require Import Prelude GenConsts.
From RS.Model Require Import Field Tables Sched Codec Layout Machine.
From RS.Proofs Require Import PermFacts Junk.
Import ListNotations.
Local Open Scope N_scope.

Definition ew_eq (a b : encwork) : Prop :=
  ew_K a = ew_K b /\ ew_R a = ew_R b /\ ew_sb a = ew_sb b /\ ew_recv a = ew_recv b /\
  ew_mem a = ew_mem b /\ ew_wc a = ew_wc b.
Definition enc_eq (x y : encoder) : Prop :=
  e_codec x = e_codec y /\ e_engine x = e_engine y /\ e_rate x = e_rate y /\ ew_eq (e_work x) (e_work y).
Definition dw_eq (a b : decwork) : Prop :=
  dw_K a = dw_K b /\ dw_R a = dw_R b /\ dw_sb a = dw_sb b /\ dw_obase a = dw_obase b /\ dw_rbase a = dw_rbase b /\
  dw_orecv a = dw_orecv b /\ dw_rrecv a = dw_rrecv b /\ dw_received a = dw_received b /\
  dw_mem a = dw_mem b /\ dw_wc a = dw_wc b.
Definition dec_eq (x y : decoder) : Prop :=
  d_codec x = d_codec y /\ d_engine x = d_engine y /\ d_rate x = d_rate y /\ dw_eq (d_work x) (d_work y).
Definition opt_rel {A} (R : A -> A -> Prop) (a b : option A) : Prop :=
  match a, b with Some x, Some y => R x y | None, None => True | _, _ => False end.

(* same objects (the stashed work spaces may differ arbitrarily: a constructor resets them) *)
Definition sim (s t : state) : Prop :=
  opt_rel enc_eq (s_enc s) (s_enc t) /\ opt_rel dec_eq (s_dec s) (s_dec t).

Lemma enc_make_sim c e K R sb w w' :
  match enc_make c e K R sb w, enc_make c e K R sb w' with
  | inl (x, _), inl (y, _) => enc_eq x y
  | inr e1, inr e2 => e1 = e2
  | _, _ => False
  end.
Proof.
  unfold enc_make. destruct (validateb c K R sb); [reflexivity|]. cbn. repeat split.
Qed.
Lemma dec_make_sim c e K R sb w w' :
  match dec_make c e K R sb w, dec_make c e K R sb w' with
  | inl (x, _), inl (y, _) => dec_eq x y
  | inr e1, inr e2 => e1 = e2
  | _, _ => False
  end.
Proof.
  unfold dec_make. destruct (validateb c K R sb); [reflexivity|]. cbn. repeat split.
Qed.

Lemma enc_add_sim x y s : enc_eq x y ->
  match enc_add x s, enc_add y s with
  | inl x', inl y' => enc_eq x' y'
  | inr e1, inr e2 => e1 = e2
  | _, _ => False
  end.
Proof.
  intros (Hc & He & Hr & HK & HR & Hsb & Hrecv & Hmem & Hwc). unfold enc_add.
  rewrite HK, Hrecv, Hsb. destruct (_ =? _); [reflexivity|]. destruct (negb _); [reflexivity|].
  unfold enc_eq, ew_eq. cbn [e_codec e_engine e_rate e_work ew_K ew_R ew_sb ew_recv ew_mem ew_wc].
  rewrite ?Hc, ?He, ?Hr, ?HK, ?HR, ?Hsb, ?Hrecv, ?Hmem, ?Hwc. repeat split.
Qed.

Lemma encode_shards_sim junk ep x y : enc_eq x y -> encode_shards junk ep x = encode_shards junk ep y.
Proof.
  intros (Hc & He & Hr & HK & HR & Hsb & Hrecv & Hmem & Hwc). unfold encode_shards.
  rewrite HK, HR, Hsb, Hmem, Hwc, Hr, He. reflexivity.
Qed.
Lemma enc_encode_sim junk ep x y probes : enc_eq x y ->
  snd (enc_encode junk ep x probes) = snd (enc_encode junk ep y probes) /\
  enc_eq (fst (enc_encode junk ep x probes)) (fst (enc_encode junk ep y probes)).
Proof.
  intros H. pose proof H as (Hc & He & Hr & HK & HR & Hsb & Hrecv & Hmem & Hwc). unfold enc_encode.
  rewrite HK, Hrecv. destruct (negb _); cbn [fst snd].
  - split; [reflexivity|exact H].
  - rewrite (encode_shards_sim junk ep x y H), HR. split; [reflexivity|]. cbn. repeat split; assumption.
Qed.

Lemma dec_addo_sim x y i s : dec_eq x y ->
  match dec_add_original x i s, dec_add_original y i s with
  | inl x', inl y' => dec_eq x' y'
  | inr e1, inr e2 => e1 = e2
  | _, _ => False
  end.
Proof.
  intros (Hc & He & Hr & HK & HR & Hsb & Hob & Hrb & Hor & Hrr & Hrec & Hmem & Hwc). unfold dec_add_original.
  rewrite HK, Hob, Hrec, Hsb. destruct (_ <=? _); [reflexivity|]. destruct (pmem _ _); [reflexivity|].
  destruct (negb _); [reflexivity|]. unfold dec_eq, dw_eq, dw_insert. cbn [d_codec d_engine d_rate d_work with_dwork dw_K dw_R dw_sb dw_obase dw_rbase dw_orecv dw_rrecv dw_received dw_mem dw_wc].
  rewrite ?Hc, ?He, ?Hr, ?HK, ?HR, ?Hsb, ?Hob, ?Hrb, ?Hor, ?Hrr, ?Hrec, ?Hmem, ?Hwc. repeat split.
Qed.
Lemma dec_addr_sim x y i s : dec_eq x y ->
  match dec_add_recovery x i s, dec_add_recovery y i s with
  | inl x', inl y' => dec_eq x' y'
  | inr e1, inr e2 => e1 = e2
  | _, _ => False
  end.
Proof.
  intros (Hc & He & Hr & HK & HR & Hsb & Hob & Hrb & Hor & Hrr & Hrec & Hmem & Hwc). unfold dec_add_recovery.
  rewrite HR, Hrb, Hrec, Hsb. destruct (_ <=? _); [reflexivity|]. destruct (pmem _ _); [reflexivity|].
  destruct (negb _); [reflexivity|]. unfold dec_eq, dw_eq, dw_insert. cbn [d_codec d_engine d_rate d_work with_dwork dw_K dw_R dw_sb dw_obase dw_rbase dw_orecv dw_rrecv dw_received dw_mem dw_wc].
  rewrite ?Hc, ?He, ?Hr, ?HK, ?HR, ?Hsb, ?Hob, ?Hrb, ?Hor, ?Hrr, ?Hrec, ?Hmem, ?Hwc. repeat split.
Qed.
Lemma dec_decode_sim junk ep x y probes : dec_eq x y ->
  snd (dec_decode junk ep x probes) = snd (dec_decode junk ep y probes) /\
  dec_eq (fst (dec_decode junk ep x probes)) (fst (dec_decode junk ep y probes)).
Proof.
  intros H. pose proof H as (Hc & He & Hr & HK & HR & Hsb & Hob & Hrb & Hor & Hrr & Hrec & Hmem & Hwc).
  unfold dec_decode. rewrite HK, Hor, Hrr. destruct (_ <? _); cbn [fst snd]; [split; [reflexivity|exact H]|].
  assert (Ew : decode_work junk ep x = decode_work junk ep y).
  { unfold decode_work. rewrite HK, HR, Hsb, Hmem, Hwc, Hrec, Hr, He. reflexivity. }
  destruct (_ =? _); cbn [fst snd].
  - split; [reflexivity|]. cbn. repeat split; assumption.
  - rewrite Ew, Hob, Hrec. split; [reflexivity|]. cbn. repeat split; assumption.
Qed.

Theorem step_sim junk s t o : sim s t -> Inv s -> Inv t -> uses_oneshot o = false ->
  snd (step junk s o) = snd (step junk t o) /\ sim (fst (step junk s o)) (fst (step junk t o)).
Proof.
  destruct s as [se sd sew sdw ep al]. destruct t as [te td tew tdw tp tl].
  unfold sim, Inv. cbn [s_enc s_dec]. intros [Se Sd] [Ie Id] [Je Jd] Ho.
  unfold step. cbn [noalloc s_enc s_dec s_encwork s_decwork s_epoch].
  destruct o; try discriminate Ho.
  - (* ENew *) pose proof (enc_make_sim c e K R sb encwork_new encwork_new) as H.
    destruct (enc_make c e K R sb encwork_new) as [[x a]|]; cbn; [split; [reflexivity|split; [exact H|exact Sd]]|split; [reflexivity|split; assumption]].
  - (* ENewW *)
    destruct c; cbn.
    + pose proof (enc_make_sim CRs e K R sb encwork_new encwork_new) as H.
      destruct (enc_make CRs e K R sb encwork_new) as [[x a]|]; cbn; [split; [reflexivity|split; [exact H|exact Sd]]|split; [reflexivity|split; assumption]].
    + generalize (enc_make_sim CDef e K R sb (match sew with Some w => w | None => encwork_new end) (match tew with Some w => w | None => encwork_new end)).
      destruct (enc_make CDef e K R sb (match sew with Some w => w | None => encwork_new end)) as [[x a]|];
      destruct (enc_make CDef e K R sb (match tew with Some w => w | None => encwork_new end)) as [[y b]|]; intros H; try tauto; cbn;
      (split; [first [reflexivity|congruence]|split; first [exact H|assumption]]).
    + generalize (enc_make_sim CHigh e K R sb (match sew with Some w => w | None => encwork_new end) (match tew with Some w => w | None => encwork_new end)).
      destruct (enc_make CHigh e K R sb (match sew with Some w => w | None => encwork_new end)) as [[x a]|];
      destruct (enc_make CHigh e K R sb (match tew with Some w => w | None => encwork_new end)) as [[y b]|]; intros H; try tauto; cbn;
      (split; [first [reflexivity|congruence]|split; first [exact H|assumption]]).
    + generalize (enc_make_sim CLow e K R sb (match sew with Some w => w | None => encwork_new end) (match tew with Some w => w | None => encwork_new end)).
      destruct (enc_make CLow e K R sb (match sew with Some w => w | None => encwork_new end)) as [[x a]|];
      destruct (enc_make CLow e K R sb (match tew with Some w => w | None => encwork_new end)) as [[y b]|]; intros H; try tauto; cbn;
      (split; [first [reflexivity|congruence]|split; first [exact H|assumption]]).
  - (* EParts *) destruct se as [x|], te as [y|]; cbn in Se; try tauto; cbn; (split; [reflexivity|split; first [exact I|assumption]]).
  - (* EReset *) destruct se as [x|], te as [y|]; cbn in Se; try tauto; try (solve [cbn; split; [reflexivity|split; assumption]]).
    pose proof Se as Se0. destruct Se as (Hc & He & Hr & Hw).
    pose proof (enc_make_sim (e_codec x) (e_engine x) K R sb (e_work x) (e_work y)) as H. rewrite <- Hc, <- He.
    destruct (enc_make _ _ K R sb (e_work x)) as [[x' a]|]; destruct (enc_make _ _ K R sb (e_work y)) as [[y' b]|]; try tauto; cbn;
      try (split; [first [reflexivity|congruence]|split; first [exact H|assumption|(unfold enc_eq, dec_eq; repeat split; assumption)]]).
  - (* EAdd *) destruct se as [x|], te as [y|]; cbn in Se; try tauto; try (solve [cbn; split; [reflexivity|split; assumption]]).
    pose proof (enc_add_sim x y shard Se) as H.
    destruct (enc_add x shard) as [x'|]; destruct (enc_add y shard) as [y'|]; try tauto; cbn;
      try (split; [first [reflexivity|congruence]|split; first [exact H|assumption|(unfold enc_eq, dec_eq; repeat split; assumption)]]).
  - (* EEncode *) destruct se as [x|], te as [y|]; cbn in Se; try tauto; try (solve [cbn; split; [reflexivity|split; assumption]]).
    rewrite (enc_encode_junk junk junk ep tp x probes Ie).
    destruct (enc_encode_sim junk tp x y probes Se) as [H1 H2].
    destruct (enc_encode junk tp x probes) as [x' r1]. destruct (enc_encode junk tp y probes) as [y' r2]. cbn [fst snd] in *. subst r2.
    destruct r1; cbn; (split; [reflexivity|split; assumption]).
  - (* DNew *) pose proof (dec_make_sim c e K R sb decwork_new decwork_new) as H.
    destruct (dec_make c e K R sb decwork_new) as [[x a]|]; cbn; [split; [reflexivity|split; [exact Se|exact H]]|split; [reflexivity|split; assumption]].
  - (* DNewW *)
    destruct c; cbn.
    + pose proof (dec_make_sim CRs e K R sb decwork_new decwork_new) as H.
      destruct (dec_make CRs e K R sb decwork_new) as [[x a]|]; cbn; [split; [reflexivity|split; [exact Se|exact H]]|split; [reflexivity|split; assumption]].
    + generalize (dec_make_sim CDef e K R sb (match sdw with Some w => w | None => decwork_new end) (match tdw with Some w => w | None => decwork_new end)).
      destruct (dec_make CDef e K R sb (match sdw with Some w => w | None => decwork_new end)) as [[x a]|];
      destruct (dec_make CDef e K R sb (match tdw with Some w => w | None => decwork_new end)) as [[y b]|]; intros H; try tauto; cbn;
      (split; [first [reflexivity|congruence]|split; first [exact H|assumption]]).
    + generalize (dec_make_sim CHigh e K R sb (match sdw with Some w => w | None => decwork_new end) (match tdw with Some w => w | None => decwork_new end)).
      destruct (dec_make CHigh e K R sb (match sdw with Some w => w | None => decwork_new end)) as [[x a]|];
      destruct (dec_make CHigh e K R sb (match tdw with Some w => w | None => decwork_new end)) as [[y b]|]; intros H; try tauto; cbn;
      (split; [first [reflexivity|congruence]|split; first [exact H|assumption]]).
    + generalize (dec_make_sim CLow e K R sb (match sdw with Some w => w | None => decwork_new end) (match tdw with Some w => w | None => decwork_new end)).
      destruct (dec_make CLow e K R sb (match sdw with Some w => w | None => decwork_new end)) as [[x a]|];
      destruct (dec_make CLow e K R sb (match tdw with Some w => w | None => decwork_new end)) as [[y b]|]; intros H; try tauto; cbn;
      (split; [first [reflexivity|congruence]|split; first [exact H|assumption]]).
  - (* DParts *) destruct sd as [x|], td as [y|]; cbn in Sd; try tauto; cbn; (split; [reflexivity|split; first [exact I|assumption]]).
  - (* DReset *) destruct sd as [x|], td as [y|]; cbn in Sd; try tauto; try (solve [cbn; split; [reflexivity|split; assumption]]).
    pose proof Sd as Sd0. destruct Sd as (Hc & He & Hr & Hw).
    pose proof (dec_make_sim (d_codec x) (d_engine x) K R sb (d_work x) (d_work y)) as H. rewrite <- Hc, <- He.
    destruct (dec_make _ _ K R sb (d_work x)) as [[x' a]|]; destruct (dec_make _ _ K R sb (d_work y)) as [[y' b]|]; try tauto; cbn;
      try (split; [first [reflexivity|congruence]|split; first [exact H|assumption|(unfold enc_eq, dec_eq; repeat split; assumption)]]).
  - (* DAddO *) destruct sd as [x|], td as [y|]; cbn in Sd; try tauto; try (solve [cbn; split; [reflexivity|split; assumption]]).
    pose proof (dec_addo_sim x y idx shard Sd) as H.
    destruct (dec_add_original x idx shard) as [x'|]; destruct (dec_add_original y idx shard) as [y'|]; try tauto; cbn;
      try (split; [first [reflexivity|congruence]|split; first [exact H|assumption|(unfold enc_eq, dec_eq; repeat split; assumption)]]).
  - (* DAddR *) destruct sd as [x|], td as [y|]; cbn in Sd; try tauto; try (solve [cbn; split; [reflexivity|split; assumption]]).
    pose proof (dec_addr_sim x y idx shard Sd) as H.
    destruct (dec_add_recovery x idx shard) as [x'|]; destruct (dec_add_recovery y idx shard) as [y'|]; try tauto; cbn;
      try (split; [first [reflexivity|congruence]|split; first [exact H|assumption|(unfold enc_eq, dec_eq; repeat split; assumption)]]).
  - (* DDecode *) destruct sd as [x|], td as [y|]; cbn in Sd; try tauto; try (solve [cbn; split; [reflexivity|split; assumption]]).
    rewrite (dec_decode_junk junk junk ep tp x probes Id).
    destruct (dec_decode_sim junk tp x y probes Sd) as [H1 H2].
    destruct (dec_decode junk tp x probes) as [x' r1]. destruct (dec_decode junk tp y probes) as [y' r2]. cbn [fst snd] in *. subst r2.
    destruct r1; cbn; (split; [reflexivity|split; assumption]).
  - (* Supports *) cbn. split; [reflexivity|split; assumption].
  - (* Validate *) cbn. split; [reflexivity|split; assumption].
Qed.

Theorem run_sim junk1 junk2 ops : forallb (fun o => negb (uses_oneshot o)) ops = true ->
  forall s t, sim s t -> Inv s -> Inv t -> snd (run junk1 s ops) = snd (run junk2 t ops).
Proof.
  intros Hops s t Hst Hs Ht. rewrite (run_junk junk1 junk2 ops Hops s Hs). unfold run.
  assert (G : forall acc s t, sim s t -> Inv s -> Inv t ->
     snd (fold_left (fun '(s, acc) o => let '(s', r) := step junk2 s o in (s', acc ++ [r])) ops (s, acc)) =
     snd (fold_left (fun '(s, acc) o => let '(s', r) := step junk2 s o in (s', acc ++ [r])) ops (t, acc))).
  { clear s t Hst Hs Ht. induction ops as [|o ops IH]; intros acc s t Hst Hs Ht; [reflexivity|].
    cbn [forallb] in Hops. apply andb_prop in Hops. destruct Hops as [Ho Hops]. apply negb_true_iff in Ho.
    cbn [fold_left]. destruct (step_sim junk2 s t o Hst Hs Ht Ho) as [Hr Hsim].
    pose proof (step_Inv junk2 s o Hs) as Is. pose proof (step_Inv junk2 t o Ht) as It.
    destruct (step junk2 s o) as [s' r]. destruct (step junk2 t o) as [t' r']. cbn [fst snd] in *. subst r'.
    apply (IH Hops); assumption. }
  apply G; assumption.
Qed.

(* ---------- C05_round ---------- *)
(* after a successful reset the encoder is the freshly constructed one (up to owned capacity) *)
Theorem reset_like_new_enc junk s t x K R sb : s_enc s = Some x -> opt_rel dec_eq (s_dec s) (s_dec t) ->
  snd (step junk s (EReset K R sb)) = ROkUnit ->
  sim (fst (step junk s (EReset K R sb))) (fst (step junk t (ENew (e_codec x) (e_engine x) K R sb))) /\
  snd (step junk t (ENew (e_codec x) (e_engine x) K R sb)) = ROkUnit.
Proof.
  destruct s as [se sd sew sdw ep al]. destruct t as [te td tew tdw tp tl]. cbn [s_enc s_dec]. intros -> Sd.
  unfold step, sim. cbn [noalloc s_enc s_dec s_encwork s_decwork s_epoch].
  generalize (enc_make_sim (e_codec x) (e_engine x) K R sb (e_work x) encwork_new).
  destruct (enc_make (e_codec x) (e_engine x) K R sb (e_work x)) as [[x' a]|];
  destruct (enc_make (e_codec x) (e_engine x) K R sb encwork_new) as [[y' b]|]; intros H; try tauto; cbn; try discriminate; try (intros _; repeat split; assumption).
Qed.
Theorem reset_like_new_dec junk s t x K R sb : s_dec s = Some x -> opt_rel enc_eq (s_enc s) (s_enc t) ->
  snd (step junk s (DReset K R sb)) = ROkUnit ->
  sim (fst (step junk s (DReset K R sb))) (fst (step junk t (DNew (d_codec x) (d_engine x) K R sb))) /\
  snd (step junk t (DNew (d_codec x) (d_engine x) K R sb)) = ROkUnit.
Proof.
  destruct s as [se sd sew sdw ep al]. destruct t as [te td tew tdw tp tl]. cbn [s_enc s_dec]. intros -> Se.
  unfold step, sim. cbn [noalloc s_enc s_dec s_encwork s_decwork s_epoch].
  generalize (dec_make_sim (d_codec x) (d_engine x) K R sb (d_work x) decwork_new).
  destruct (dec_make (d_codec x) (d_engine x) K R sb (d_work x)) as [[x' a]|];
  destruct (dec_make (d_codec x) (d_engine x) K R sb decwork_new) as [[y' b]|]; intros H; try tauto; cbn; try discriminate; try (intros _; repeat split; assumption).
Qed.

(* taking over the working space of another codec: new(.., Some(work)) is new(.., None) *)
Theorem neww_like_new_enc junk s c e K R sb :
  snd (step junk s (ENewW c e K R sb)) = snd (step junk s (ENew c e K R sb)) /\
  opt_rel enc_eq (s_enc (fst (step junk s (ENewW c e K R sb)))) (s_enc (fst (step junk s (ENew c e K R sb)))).
Proof.
  destruct s as [se sd sew sdw ep al]. unfold step. cbn [noalloc s_enc s_dec s_encwork s_decwork s_epoch].
  destruct c.
  - destruct (enc_make CRs e K R sb encwork_new) as [[x a]|]; cbn; split; try reflexivity.
    + repeat split.
    + destruct se; cbn; [repeat split|exact I].
  - generalize (enc_make_sim CDef e K R sb (match sew with Some w => w | None => encwork_new end) encwork_new).
    destruct (enc_make CDef e K R sb (match sew with Some w => w | None => encwork_new end)) as [[x a]|];
    destruct (enc_make CDef e K R sb encwork_new) as [[y b]|]; intros H; try tauto; cbn; split; try reflexivity; try congruence; try assumption.
    destruct se; cbn; [repeat split|exact I].
  - generalize (enc_make_sim CHigh e K R sb (match sew with Some w => w | None => encwork_new end) encwork_new).
    destruct (enc_make CHigh e K R sb (match sew with Some w => w | None => encwork_new end)) as [[x a]|];
    destruct (enc_make CHigh e K R sb encwork_new) as [[y b]|]; intros H; try tauto; cbn; split; try reflexivity; try congruence; try assumption.
    destruct se; cbn; [repeat split|exact I].
  - generalize (enc_make_sim CLow e K R sb (match sew with Some w => w | None => encwork_new end) encwork_new).
    destruct (enc_make CLow e K R sb (match sew with Some w => w | None => encwork_new end)) as [[x a]|];
    destruct (enc_make CLow e K R sb encwork_new) as [[y b]|]; intros H; try tauto; cbn; split; try reflexivity; try congruence; try assumption.
    destruct se; cbn; [repeat split|exact I].
Qed.
