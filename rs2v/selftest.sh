#!/bin/sh
# rs2v self-test: translates /repo/src, compiles the generated Coq, and checks
# the translated arithmetic functions against the real Rust code (public API
# of the crate + verbatim copies of its private helpers) on boundary grids.
#
# usage: ./selftest.sh [repo_dir]        (default /repo)
# Works in a private temporary directory; /verif/coq/Gen is not touched.
set -eu

HERE=$(cd "$(dirname "$0")" && pwd)
REPO=${1:-/repo}
PRELUDE=${RS2V_PRELUDE:-$HERE/../coq/Gen/Prelude.v}
WORK=$(mktemp -d "${TMPDIR:-/tmp}/rs2v-selftest.XXXXXX")
trap '[ -n "${RS2V_KEEP:-}" ] || rm -rf "$WORK"' EXIT

echo "== build rs2v"
(cd "$HERE" && cargo build --offline --release --quiet)

echo "== translator unit test (\`?\`, value-position if, match arms, shifts, casts)"
(cd "$HERE" && cargo test --offline --quiet 2>&1 | grep -E "^test result|FAILED|panicked" || true)
(cd "$HERE" && cargo test --offline --quiet >/dev/null 2>&1) || { echo "FAIL: cargo test"; exit 1; }

echo "== translate $REPO/src"
mkdir -p "$WORK/Gen"
cp "$PRELUDE" "$WORK/Gen/Prelude.v"
"$HERE/target/release/rs2v" "$REPO/src" "$WORK/Gen"
# second run must be a no-op
"$HERE/target/release/rs2v" "$REPO/src" "$WORK/Gen" | grep -v ' unchanged$' && {
    echo "FAIL: second rs2v run rewrote a file"; exit 1; } || true

echo "== compile generated files"
for f in Prelude GenConsts GenRate GenMod GenDispatch GenStatics; do
    (cd "$WORK" && coqc -Q Gen RS.Gen "Gen/$f.v")
done

echo "== run the Rust side (debug build: overflow checks + debug assertions)"
if [ "$REPO" != /repo ]; then
    echo "note: the test program links the crate at /repo (Cargo path dependency);"
    echo "      private helpers are copied from $REPO/src"
fi
(cd "$HERE/selftest" && RS2V_REPO_SRC="$REPO/src" cargo build --offline --quiet 2>/dev/null \
    || (cd "$HERE/selftest" && RS2V_REPO_SRC="$REPO/src" cargo build --offline))
"$HERE/selftest/target/debug/rs2v-selftest" "$WORK/SelfTest.v"

echo "== check translation against observed results (coqc SelfTest.v)"
(cd "$WORK" && coqc -Q Gen RS.Gen SelfTest.v)
echo "rs2v selftest: PASS"
