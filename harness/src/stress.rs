//! `rsh stress <nthreads> <seed> <rounds>`
//!
//! * `nthreads` worker threads wait on a `Barrier`, then each constructs an
//!   engine chosen by `(seed + i) mod 5` among Naive, NoSimd, Ssse3, Avx2,
//!   DefaultEngine, so that the first uses race to initialise the crate's
//!   lazily initialised global tables. (If the CPU lacks SSSE3/AVX2 the thread
//!   falls back to NoSimd.)
//! * Each worker runs `rounds` encode+decode round trips. Shape and data of
//!   round `j` of thread `i` derive from `(seed, i, j)` via splitmix64:
//!   K,R in 1..40, shard size in {2,64,66}, codec in {high, low, default}.
//! * In half of the rounds the encoder (after the adds, before `encode()`) and
//!   the decoder (after the adds, before `decode()`) are moved to a helper
//!   thread through `std::sync::mpsc`; the helper calls `encode()`/`decode()`,
//!   collects the outputs into `Vec`s and sends them back.
//! * After all workers joined, every round is recomputed sequentially on the
//!   main thread (same engine kind, nothing moved) and recovery and restored
//!   bytes are compared; both runs also check that decoding restored exactly
//!   the withheld originals.
//! * Prints `ok <rounds compared>` (exit 0) or `mismatch <details>` (exit 1).
//!   A watchdog prints `hang` and exits with 2 after 60 s.

use std::io::Write;
use std::sync::{mpsc, Arc, Barrier};
use std::thread;
use std::time::Duration;

use reed_solomon_simd::{
    engine::{DefaultEngine, Engine, Naive, NoSimd},
    rate::{DefaultRate, HighRate, LowRate, Rate, RateDecoder, RateEncoder},
};

#[cfg(any(target_arch = "x86", target_arch = "x86_64"))]
use reed_solomon_simd::engine::{Avx2, Ssse3};

use crate::obj::{have_avx2, have_ssse3};
use crate::util::{splitmix_bytes, SplitMix};

const THREAD_STACK: usize = 32 << 20;

// ======================================================================
// Round parameters

#[derive(Clone, Debug)]
struct Params {
    k: usize,
    r: usize,
    sb: usize,
    /// 0 = high, 1 = low, 2 = default
    codec: u8,
    moved: bool,
    data_seed: u64,
    /// Withheld original indexes (ascending).
    lost: Vec<usize>,
    /// Recovery indexes given to the decoder.
    rec: Vec<usize>,
}

fn pick(rng: &mut SplitMix, n: usize, count: usize) -> Vec<usize> {
    let mut idx: Vec<usize> = (0..n).collect();
    for a in 0..count {
        let b = a + rng.below((n - a) as u64) as usize;
        idx.swap(a, b);
    }
    idx.truncate(count);
    idx
}

fn params(seed: u64, i: usize, j: usize) -> Params {
    // Odd threads repeat one shape and loss pattern in every round (fresh data each
    // round), so that anything cached per pattern and shared between threads is hit
    // while other threads decode other patterns.
    if i % 2 == 1 && j > 0 {
        let mut p = params(seed, i, 0);
        p.data_seed = SplitMix::new(p.data_seed ^ (j as u64).wrapping_mul(0xD6E8_FEB8_6659_FD93)).next();
        p.moved = j % 2 == 1;
        return p;
    }
    let mut rng = SplitMix::new(
        seed.wrapping_mul(0x0000_0100_0000_01B3)
            ^ ((i as u64) << 40)
            ^ (j as u64).wrapping_mul(0x9E37_79B9),
    );
    rng.next();
    let k = 1 + rng.below(39) as usize;
    let r = 1 + rng.below(39) as usize;
    let sb = [2usize, 64, 66][rng.below(3) as usize];
    let codec = rng.below(3) as u8;
    let moved = rng.next() & 1 == 1;
    let data_seed = rng.next();
    let max_lost = k.min(r);
    // Bias towards losing something so decode does real work.
    let lost_count = if max_lost > 0 && rng.below(8) != 0 {
        1 + rng.below(max_lost as u64) as usize
    } else {
        0
    };
    let mut lost = pick(&mut rng, k, lost_count);
    lost.sort_unstable();
    // Sometimes hand over one surplus recovery shard.
    let extra = usize::from(r > lost_count && rng.below(4) == 0);
    let rec = pick(&mut rng, r, lost_count + extra);
    Params {
        k,
        r,
        sb,
        codec,
        moved,
        data_seed,
        lost,
        rec,
    }
}

fn original(p: &Params, t: usize) -> Vec<u8> {
    splitmix_bytes(p.data_seed.wrapping_add(t as u64), p.sb)
}

#[derive(PartialEq, Eq, Debug)]
struct RoundOut {
    recovery: Vec<Vec<u8>>,
    restored: Vec<(usize, Vec<u8>)>,
}

// ======================================================================
// Helper thread

type Job = Box<dyn FnOnce() + Send + 'static>;

struct Helper {
    tx: Option<mpsc::Sender<Job>>,
    handle: Option<thread::JoinHandle<()>>,
}

impl Helper {
    fn new(name: String) -> Self {
        let (tx, rx) = mpsc::channel::<Job>();
        let handle = thread::Builder::new()
            .name(name)
            .stack_size(THREAD_STACK)
            .spawn(move || {
                for job in rx {
                    job();
                }
            })
            .expect("cannot spawn helper");
        Self {
            tx: Some(tx),
            handle: Some(handle),
        }
    }

    /// Sends `f` (which owns the moved codec object) to the helper thread and
    /// waits for its result.
    fn run<T: Send + 'static>(
        &self,
        f: impl FnOnce() -> T + Send + 'static,
    ) -> Result<T, String> {
        let (rtx, rrx) = mpsc::channel::<T>();
        self.tx
            .as_ref()
            .unwrap()
            .send(Box::new(move || {
                let _ = rtx.send(f());
            }))
            .map_err(|_| "helper-thread-gone".to_string())?;
        rrx.recv().map_err(|_| "helper-thread-panicked".to_string())
    }
}

impl Drop for Helper {
    fn drop(&mut self) {
        drop(self.tx.take());
        if let Some(h) = self.handle.take() {
            let _ = h.join();
        }
    }
}

// ======================================================================
// One round

fn dbg(e: reed_solomon_simd::Error) -> String {
    format!("{e:?}").replace(' ', "")
}

fn round<E, Rt>(mk: &dyn Fn() -> E, p: &Params, helper: Option<&Helper>) -> Result<RoundOut, String>
where
    E: Engine + 'static,
    Rt: Rate<E>,
    Rt::RateEncoder: Send + 'static,
    Rt::RateDecoder: Send + 'static,
{
    let originals: Vec<Vec<u8>> = (0..p.k).map(|t| original(p, t)).collect();

    // ---- encode
    let mut enc = Rt::encoder(p.k, p.r, p.sb, mk(), None).map_err(dbg)?;
    for o in &originals {
        enc.add_original_shard(o).map_err(dbg)?;
    }
    let recovery: Vec<Vec<u8>> = match helper {
        Some(h) if p.moved => h.run(move || {
            let mut enc = enc;
            let out = enc
                .encode()
                .map(|res| res.recovery_iter().map(<[u8]>::to_vec).collect::<Vec<_>>());
            out
        })?,
        _ => enc
            .encode()
            .map(|res| res.recovery_iter().map(<[u8]>::to_vec).collect::<Vec<_>>()),
    }
    .map_err(dbg)?;
    if recovery.len() != p.r || recovery.iter().any(|s| s.len() != p.sb) {
        return Err("recovery-shape".into());
    }

    // ---- decode
    let mut dec = Rt::decoder(p.k, p.r, p.sb, mk(), None).map_err(dbg)?;
    for (t, o) in originals.iter().enumerate() {
        if p.lost.binary_search(&t).is_err() {
            dec.add_original_shard(t, o).map_err(dbg)?;
        }
    }
    for &j in &p.rec {
        dec.add_recovery_shard(j, &recovery[j]).map_err(dbg)?;
    }
    let restored: Vec<(usize, Vec<u8>)> = match helper {
        Some(h) if p.moved => h.run(move || {
            let mut dec = dec;
            let out = dec.decode().map(|res| {
                res.restored_original_iter()
                    .map(|(i, s)| (i, s.to_vec()))
                    .collect::<Vec<_>>()
            });
            out
        })?,
        _ => dec.decode().map(|res| {
            res.restored_original_iter()
                .map(|(i, s)| (i, s.to_vec()))
                .collect::<Vec<_>>()
        }),
    }
    .map_err(dbg)?;

    // ---- decode must have restored exactly the withheld originals
    if restored.len() != p.lost.len() {
        return Err(format!(
            "restored-count-{}-expected-{}",
            restored.len(),
            p.lost.len()
        ));
    }
    for ((i, s), &want) in restored.iter().zip(&p.lost) {
        if *i != want || *s != originals[want] {
            return Err(format!("restored-shard-{i}-wrong-(expected-index-{want})"));
        }
    }

    Ok(RoundOut { recovery, restored })
}

fn rounds_with<E>(
    mk: &dyn Fn() -> E,
    seed: u64,
    i: usize,
    rounds: usize,
    helper: Option<&Helper>,
) -> Vec<Result<RoundOut, String>>
where
    E: Engine + Send + 'static,
{
    (0..rounds)
        .map(|j| {
            let p = params(seed, i, j);
            match p.codec {
                0 => round::<E, HighRate<E>>(mk, &p, helper),
                1 => round::<E, LowRate<E>>(mk, &p, helper),
                _ => round::<E, DefaultRate<E>>(mk, &p, helper),
            }
        })
        .collect()
}

fn kind_name(kind: u64) -> &'static str {
    ["naive", "nosimd", "ssse3", "avx2", "default"][kind as usize]
}

/// Runs all rounds of thread `i`. With a barrier: wait, *then* construct the
/// engine (so table initialisation races with the other threads).
fn thread_rounds(
    seed: u64,
    i: usize,
    rounds: usize,
    barrier: Option<&Barrier>,
    helper: Option<&Helper>,
) -> Vec<Result<RoundOut, String>> {
    let kind = seed.wrapping_add(i as u64) % 5;
    if let Some(b) = barrier {
        b.wait();
    }
    match kind {
        0 => {
            let e = Naive::new();
            rounds_with(&move || e, seed, i, rounds, helper)
        }
        #[cfg(any(target_arch = "x86", target_arch = "x86_64"))]
        2 if have_ssse3() => {
            let e = Ssse3::new();
            rounds_with(&move || e, seed, i, rounds, helper)
        }
        #[cfg(any(target_arch = "x86", target_arch = "x86_64"))]
        3 if have_avx2() => {
            let e = Avx2::new();
            rounds_with(&move || e, seed, i, rounds, helper)
        }
        4 => {
            // DefaultEngine is neither Copy nor Clone: first construction
            // here (racing), then a fresh one per codec object.
            let first = DefaultEngine::new();
            drop(first);
            rounds_with(&DefaultEngine::new, seed, i, rounds, helper)
        }
        _ => {
            let e = NoSimd::new();
            rounds_with(&move || e, seed, i, rounds, helper)
        }
    }
}

// ======================================================================
// Entry point

pub fn stress(nthreads: usize, seed: u64, rounds: usize) -> i32 {
    // Watchdog.
    thread::spawn(|| {
        thread::sleep(Duration::from_secs(60));
        println!("hang");
        let _ = std::io::stdout().flush();
        std::process::exit(2);
    });
    let _ = (have_avx2(), have_ssse3());

    let barrier = Arc::new(Barrier::new(nthreads.max(1)));
    let handles: Vec<_> = (0..nthreads)
        .map(|i| {
            let barrier = Arc::clone(&barrier);
            thread::Builder::new()
                .name(format!("stress-{i}"))
                .stack_size(THREAD_STACK)
                .spawn(move || {
                    let helper = Helper::new(format!("stress-helper-{i}"));
                    thread_rounds(seed, i, rounds, Some(&barrier), Some(&helper))
                })
                .expect("cannot spawn stress thread")
        })
        .collect();

    let mut parallel: Vec<Result<Vec<Result<RoundOut, String>>, ()>> = Vec::new();
    for h in handles {
        parallel.push(h.join().map_err(|_| ()));
    }

    // Sequential recomputation on a big-stack thread standing in for "main"
    // (the real main thread only waits), one thread index after the other.
    let seq_handle = thread::Builder::new()
        .name("stress-seq".into())
        .stack_size(THREAD_STACK)
        .spawn(move || {
            (0..nthreads)
                .map(|i| thread_rounds(seed, i, rounds, None, None))
                .collect::<Vec<_>>()
        })
        .expect("cannot spawn sequential thread");
    let sequential = match seq_handle.join() {
        Ok(v) => v,
        Err(_) => {
            println!("mismatch sequential-recomputation-panicked");
            return 1;
        }
    };

    let mut compared = 0usize;
    for i in 0..nthreads {
        let kind = kind_name(seed.wrapping_add(i as u64) % 5);
        let par = match &parallel[i] {
            Ok(v) => v,
            Err(()) => {
                println!("mismatch thread={i} engine={kind} worker-thread-panicked");
                return 1;
            }
        };
        for j in 0..rounds {
            let p = params(seed, i, j);
            let desc = format!(
                "thread={i} round={j} engine={kind} codec={} K={} R={} sb={} moved={} lost={:?} rec={:?}",
                ["high", "low", "def"][p.codec as usize],
                p.k,
                p.r,
                p.sb,
                p.moved,
                p.lost,
                p.rec
            )
            .replace(", ", ",");
            match (&par[j], &sequential[i][j]) {
                (Err(e), _) => {
                    println!("mismatch {desc} parallel-run-failed:{e}");
                    return 1;
                }
                (_, Err(e)) => {
                    println!("mismatch {desc} sequential-run-failed:{e}");
                    return 1;
                }
                (Ok(a), Ok(b)) => {
                    if a.recovery != b.recovery {
                        println!("mismatch {desc} recovery-bytes-differ");
                        return 1;
                    }
                    if a.restored != b.restored {
                        println!("mismatch {desc} restored-bytes-differ");
                        return 1;
                    }
                }
            }
            compared += 1;
        }
    }
    println!("ok {compared}");
    0
}
