(* C08 — supports() is exactly the documented envelope and constructors agree with it.
   All statements are about Gen/GenRate.v, regenerated from /repo/src on every run,
   and hold for every pair of natural numbers (hence every usize value): the
   translated functions never reach an overflowing operation. *)
From Coq Require Import NArith Bool List Lia.
From RS.Gen Require Import Prelude GenConsts GenRate.
From RS.Model Require Import Field Tables Sched Codec Machine Spec.
From RS.Proofs Require Import RateFacts SkewLocal.
Local Open Scope N_scope.

(* README table *)
Check (eq_refl : envelope =
  fun K R => (1 <= K /\ 1 <= R /\ exists n, n <= 16 /\ R <= 2 ^ n /\ K <= 65536 - 2 ^ n) \/
             (1 <= K /\ 1 <= R /\ exists n, n <= 16 /\ K <= 2 ^ n /\ R <= 65536 - 2 ^ n)).

Theorem C08_default : forall K R,
  (default_supports K R = Val true <-> envelope K R) /\
  (default_supports K R = Val true \/ default_supports K R = Val false).
Proof.
  intros K R. rewrite default_supports_gen. split.
  - rewrite <- default_supportsb_env. split; [intros [= ->]; reflexivity | intros ->; reflexivity].
  - destruct (default_supportsb K R); auto.
Qed.
Print Assumptions C08_default.

Theorem C08_high : forall K R,
  (high_supports K R = Val true <->
     1 <= K /\ 1 <= R /\ exists n, n <= 16 /\ R <= 2 ^ n /\ K <= 65536 - 2 ^ n) /\
  (high_supports K R = Val true \/ high_supports K R = Val false).
Proof.
  intros K R. rewrite high_supports_gen. split.
  - rewrite <- (high_supportsb_env K R). split; [intros [= ->]; reflexivity | intros ->; reflexivity].
  - destruct (high_supportsb K R); auto.
Qed.
Print Assumptions C08_high.

Theorem C08_low : forall K R,
  (low_supports K R = Val true <->
     1 <= K /\ 1 <= R /\ exists n, n <= 16 /\ K <= 2 ^ n /\ R <= 65536 - 2 ^ n) /\
  (low_supports K R = Val true \/ low_supports K R = Val false).
Proof.
  intros K R. rewrite low_supports_gen. split.
  - rewrite <- (low_supportsb_env K R). split; [intros [= ->]; reflexivity | intros ->; reflexivity].
  - destruct (low_supportsb K R); auto.
Qed.
Print Assumptions C08_low.

(* ReedSolomonEncoder::supports and ReedSolomonDecoder::supports are the default rate's *)
Theorem C08_wrappers : forall K R,
  rs_encoder_supports K R = default_supports K R /\ rs_decoder_supports K R = default_supports K R.
Proof. intros; split; reflexivity. Qed.
Print Assumptions C08_wrappers.

(* validate (hence new and reset, which call it first) succeeds exactly when supports
   is true and the shard size is even and non-zero; otherwise it reports the
   corresponding error; it never overflows. Holds for all four codec families. *)
Theorem C08_validate : forall c K R sb,
  (validate (sup_gen c) K R sb = Val (ROk tt) <->
     sup_gen c K R = Val true /\ sb <> 0 /\ N.odd sb = false) /\
  (sup_gen c K R = Val false -> validate (sup_gen c) K R sb = Val (RErr (UnsupportedShardCount K R))) /\
  (sup_gen c K R = Val true -> (sb = 0 \/ N.odd sb = true) ->
     validate (sup_gen c) K R sb = Val (RErr (InvalidShardSize sb))).
Proof.
  intros c K R sb. rewrite validate_codec_gen, sup_gen_ok. unfold validateb, bad_size.
  destruct (supportsb c K R); cbn [negb].
  - destruct (N.eqb_spec sb 0) as [->|Hn]; cbn [orb].
    + split; [split; [discriminate|intros (_ & H & _); congruence]|]. split; [discriminate|reflexivity].
    + destruct (N.odd sb) eqn:E.
      * split; [split; [discriminate|intros (_ & _ & H); discriminate]|]. split; [discriminate|reflexivity].
      * split; [split; [auto|reflexivity]|]. split; [discriminate|]. intros _ [H|H]; congruence.
  - split; [split; [discriminate|intros (H & _); discriminate]|]. split; [reflexivity|discriminate].
Qed.
Print Assumptions C08_validate.

(* the rate the default codec selects supports the configuration, so the inner
   constructor cannot fail after the outer check passed *)
Theorem C08_chosen : forall K R,
  (use_high_rate K R = Val (ROk true) -> high_supports K R = Val true) /\
  (use_high_rate K R = Val (ROk false) -> low_supports K R = Val true).
Proof.
  intros K R. rewrite use_high_rate_gen, high_supports_gen, low_supports_gen.
  destruct (chosen_rate_supports K R) as [H1 H2].
  destruct (use_high_rateb K R) as [[|]|]; cbn [rres_of]; split; intros [=]; f_equal; auto.
Qed.
Print Assumptions C08_chosen.

(* work_count never overflows inside the envelope and equals the model's *)
Theorem C08_work_counts : forall K R,
  (high_supports K R = Val true ->
     high_encoder_work_count K R = Val (high_enc_work_count K R) /\
     high_decoder_work_count K R = Val (high_dec_work_count K R)) /\
  (low_supports K R = Val true ->
     low_encoder_work_count K R = Val (low_enc_work_count K R) /\
     low_decoder_work_count K R = Val (low_dec_work_count K R)).
Proof.
  intros K R. rewrite high_supports_gen, low_supports_gen. split; intros [= H]; split;
    auto using high_encoder_work_count_gen, high_decoder_work_count_gen,
               low_encoder_work_count_gen, low_decoder_work_count_gen.
Qed.
Print Assumptions C08_work_counts.

(* the model's boolean functions (used by the executable model and the
   correspondence check) are the translated ones *)
Theorem C08_model_tie : forall c K R, sup_gen c K R = Val (supportsb c K R).
Proof. exact sup_gen_ok. Qed.
Print Assumptions C08_model_tie.

(* non-vacuity: README rows *)
Example C08_rows :
  default_supports 61440 4096 = Val true /\ default_supports 4096 61440 = Val true /\
  default_supports 32768 32768 = Val true /\ default_supports 32769 32768 = Val false /\
  default_supports 61441 4096 = Val false /\ default_supports 65535 1 = Val true /\
  default_supports 65535 2 = Val false /\ default_supports 0 1 = Val false /\
  default_supports 18446744073709551615 18446744073709551615 = Val false.
Proof. vm_compute. repeat split. Qed.


(* ---------- index safety of the transforms inside the envelope ---------- *)
(* a transform of size 2^k at skew_delta reads the skew table only below skew_delta + 2^k - 1:
   with skew_delta + size <= 65536 the result is the one computed from the raw 65535-entry table,
   i.e. the out-of-range guard of the model's `skew` (a Rust index panic) is never reached -
   every engine, any element type, any truncation *)
Theorem C08_transform_index_safe : forall T (ops : elt_ops T) e k trunc sd l, (k <= 16)%nat ->
  N.of_nat (length l) = 2 ^ N.of_nat k -> sd + 2 ^ N.of_nat k <= 65536 ->
  fft ops e (2 ^ N.of_nat k) trunc sd l =
    (if two_layer_engine e then two_fft ops skew_raw else naive_fft ops skew_raw) (2 ^ N.of_nat k) trunc sd l /\
  ifft ops e (2 ^ N.of_nat k) trunc sd l =
    (if two_layer_engine e then two_ifft ops skew_raw else naive_ifft ops skew_raw) (2 ^ N.of_nat k) trunc sd l.
Proof. exact @fft_index_safe. Qed.
Print Assumptions C08_transform_index_safe.

(* the call sites of the codecs satisfy skew_delta + size <= 65536 inside the envelope: chunk c of
   an encoder (c * m < count of the other kind, m the chunk size with m + count <= 65536) is
   transformed at skew_delta (c + 1) * m with size m; the first/last transforms and the decoders
   use skew_delta 0 with a size that is a power of two <= 65536 *)
Theorem C08_call_site_bounds : forall k c X, (k <= 16)%nat -> 2 ^ N.of_nat k + X <= 65536 -> c * 2 ^ N.of_nat k < X ->
  (c + 1) * 2 ^ N.of_nat k + 2 ^ N.of_nat k <= 65536.
Proof.
  intros k c X Hk Henv Hc. set (m := 2 ^ N.of_nat k) in *.
  assert (HQ : 2 ^ (16 - N.of_nat k) * m = 65536).
  { unfold m. rewrite <- N.pow_add_r. replace (16 - N.of_nat k + N.of_nat k) with 16 by lia. reflexivity. }
  set (Q := 2 ^ (16 - N.of_nat k)) in *. assert (c + 2 <= Q) by nia. nia.
Qed.
Print Assumptions C08_call_site_bounds.
Theorem C08_work_size_bound : forall x, x <= 65536 -> npow2 x <= 65536.
Proof. exact npow2_le_65536. Qed.
