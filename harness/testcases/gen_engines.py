#!/usr/bin/env python3
# Generates engines.case: the same encode/decode/primitive inputs for every engine.
# check_engines.py then verifies that the results agree across engines.
engines = ["naive", "nosimd", "ssse3", "avx2", "default", "neon"]
shapes = [(1, 1), (3, 2), (2, 3), (5, 5), (17, 4), (4, 17), (33, 40), (64, 64), (100, 7), (7, 100), (300, 20)]
sbs = [2, 30, 64, 66, 130]
out = []
for codec in ["high", "low", "def"]:
    for (k, r) in shapes:
        for sb in sbs:
            for e in engines:
                ops = [f"E.new {codec} {e} {k} {r} {sb}"]
                for i in range(k):
                    ops.append(f"E.add #{1000 * k + i}:{sb}")
                ops.append("E.encode 0")
                lost = min(k, r)
                ops.append(f"D.new {codec} {e} {k} {r} {sb}")
                for i in range(lost, k):
                    ops.append(f"D.addo {i} @o{i}")
                for j in range(lost):
                    ops.append(f"D.addr {r - 1 - j} @r{r - 1 - j}")
                ops.append("D.decode 0")
                out.append(f"enc:{codec}:{k}:{r}:{sb}:{e} " + " ; ".join(ops))
# primitives
prim_engines = ["nosimd", "ssse3", "avx2", "neon", "default", "naive"]
n = 0
for (count, len64, pos, size, trunc, skew) in [
    (4, 1, 0, 4, 4, 4), (8, 2, 0, 8, 8, 8), (8, 2, 0, 8, 5, 8), (16, 1, 8, 8, 8, 16), (16, 3, 0, 16, 11, 0),
    (2, 1, 0, 2, 2, 2), (2, 1, 0, 2, 1, 0), (32, 1, 0, 32, 32, 32), (64, 1, 0, 64, 33, 64), (8, 1, 4, 4, 3, 100),
    (1, 1, 0, 1, 1, 0),
]:
    for op in ["P.fft", "P.ifft"]:
        for e in prim_engines:
            out.append(f"prim:{n}:{e} {op} {e} {count} {len64} {pos} {size} {trunc} {skew} #{n}:{count * len64 * 64}")
        n += 1
for (log_m, blocks) in [(0, 1), (1, 2), (12345, 3), (65534, 1), (65535, 1), (255, 0)]:
    for e in prim_engines:
        out.append(f"prim:{n}:{e} P.mul {e} {log_m} #{n}:{blocks * 64}")
    n += 1
for (trunc, sparse) in [(8, "0:1,2:1"), (65536, "0-99:1,4000:1"), (1024, "5-700:1"), (16, "-"), (4096, "1:1,3:1,100-200:1,65535:7")]:
    for e in prim_engines:
        out.append(f"prim:{n}:{e} P.evalpoly {e} {trunc} {sparse}")
    n += 1
open("engines.case", "w").write("\n".join(out) + "\n")
