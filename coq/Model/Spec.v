(* Short mathematical specifications used as oracles and in the statements of
   the theorems: subspace polynomials, the LCH basis, the scaled Cauchy matrix
   of C02, the erasure locator of C15, the envelope of C08. Only field
   operations (fmul/fdiv/xor); no transform, no skew table. *)
From Coq Require Import NArith List Bool.
From RS.Gen Require Import Prelude GenConsts.
From RS.Model Require Import Field.
Import ListNotations.
Local Open Scope N_scope.

(* s_0(x) = x, s_{j+1}(x) = s_j(x)^2 + s_j(x): vanishing polynomial of the points 0 .. 2^j-1 *)
Fixpoint s_poly (j : nat) (x : N) : N :=
  match j with
  | O => x
  | S j' => let y := s_poly j' x in N.lxor (fmul y y) y
  end.

(* W_m = field product of 1 .. m-1 *)
Definition W (m : N) : N := fold_left (fun acc v => fmul acc v) (range 1 m) 1.

Definition log2n (m : N) : nat := N.to_nat (N.log2 m).

(* G[j][i], high rate: m = next_power_of_two(recovery_count); [w] = W m *)
Definition cauchy_high_w (w : N) (R : N) (j i : N) : N :=
  let m := npow2 R in
  fdiv (s_poly (log2n m) (m + i)) (fmul w (N.lxor j (m + i))).
Definition cauchy_high (R : N) (j i : N) : N := cauchy_high_w (W (npow2 R)) R j i.
(* low rate: m = next_power_of_two(original_count) *)
Definition cauchy_low_w (w : N) (K : N) (j i : N) : N :=
  let m := npow2 K in
  fdiv (s_poly (log2n m) (m + j)) (fmul w (N.lxor (m + j) i)).
Definition cauchy_low (K : N) (j i : N) : N := cauchy_low_w (W (npow2 K)) K j i.

Definition xor_sum (l : list N) : N := fold_left N.lxor l 0.
(* row j of G and its application to one symbol slot of the originals *)
Definition cauchy_high_row (K R j : N) : list N :=
  let w := W (npow2 R) in map (cauchy_high_w w R j) (range 0 K).
Definition cauchy_low_row (K R j : N) : list N :=
  let w := W (npow2 K) in map (cauchy_low_w w K j) (range 0 K).
Definition row_apply (row d : list N) : N :=
  xor_sum (map (fun p => fmul (fst p) (snd p)) (combine row d)).
Definition recovery_high_spec (K R : N) (d : list N) (j : N) : N := row_apply (cauchy_high_row K R j) d.
Definition recovery_low_spec (K R : N) (d : list N) (j : N) : N := row_apply (cauchy_low_row K R j) d.

(* LCH basis polynomial X_t(x) = prod over set bits j of t of s_j(x) *)
Fixpoint lch_basis_aux (bits : nat) (j : nat) (t x : N) : N :=
  match bits with
  | O => 1
  | S b => let rest := lch_basis_aux b (S j) t x in
           if N.testbit t (N.of_nat j) then fmul (s_poly j x) rest else rest
  end.
Definition lch_basis (t x : N) : N := lch_basis_aux 16 0 t x.
(* value at x of the polynomial with LCH coefficients c *)
Definition lch_eval (c : list N) (x : N) : N :=
  xor_sum (map (fun p => fmul (snd p) (lch_basis (fst p) x))
               (combine (range 0 (N.of_nat (length c))) c)).

(* erasure locator in the log domain: sum over marked j <> x of log(x xor j) mod 65535 *)
Definition locator_log (marked : list N) (x : N) : N :=
  fold_left (fun acc j => if j =? x then acc else (acc + glog (N.lxor x j)) mod 65535) marked 0.

(* C08: the README envelope *)
Definition envelope_n (K R n : N) : bool :=
  ((K <=? 2 ^ n) && (R <=? 65536 - 2 ^ n)) || ((R <=? 2 ^ n) && (K <=? 65536 - 2 ^ n)).
Definition envelopeb (K R : N) : bool :=
  (1 <=? K) && (1 <=? R) && existsb (envelope_n K R) (range 0 17).
(* largest supported recovery_count for a given original_count (0 if none) *)
Definition rmax (K : N) : N :=
  if (K =? 0) || (65535 <? K) then 0
  else fold_left (fun acc n => if K <=? 2 ^ n then N.max acc (65536 - 2 ^ n)
                               else if K <=? 65536 - 2 ^ n then N.max acc (2 ^ n) else acc)
                 (range 0 17) 0.
