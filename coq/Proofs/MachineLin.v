(* C13 through the streaming API of the machine, on bytes: the recovery shards an encoder object
   returns for the bytewise xor of two sets of originals are the bytewise xor of the recovery shards
   returned for each set - any codec, any three engines, recycled working space and stale memory.
   Obtained from the closed form (MachineEnc.ops_encode_cauchy): a fixed matrix acts slot by slot. *)
From Coq Require Import NArith Arith Lia Bool List FMapPositive.
From RS.Gen Require Import Prelude GenConsts.
From RS.Model Require Import Field Tables Sched Codec Layout Machine Spec.
From RS.Proofs Require Import RateFacts FieldFacts Param Linear Ring FftSpec Lengths Lagrange Cauchy ShardLen LayoutFacts LayoutFacts2
     PermFacts Junk MachineRound MachineOps MachineEnc OneShotRound.
Import ListNotations.
Local Open Scope N_scope.

(* ---------- bytes and symbols of a bytewise xor ---------- *)
Lemma lo_byte_lxor a b : lo_byte (N.lxor a b) = N.lxor (lo_byte a) (lo_byte b).
Proof.
  unfold lo_byte. apply N.bits_inj. intros n. rewrite N.land_spec, !N.lxor_spec, !N.land_spec.
  destruct (N.testbit a n), (N.testbit b n), (N.testbit 255 n); reflexivity.
Qed.
Lemma hi_byte_lxor a b : hi_byte (N.lxor a b) = N.lxor (hi_byte a) (hi_byte b).
Proof. unfold hi_byte. apply N.shiftr_lxor. Qed.

Lemma map2_nil_r {A B C} (f : A -> B -> C) a : map2 f a [] = [].
Proof. unfold map2. destruct a; reflexivity. Qed.
Lemma map2_cons {A B C} (f : A -> B -> C) x a y b : map2 f (x :: a) (y :: b) = f x y :: map2 f a b.
Proof. reflexivity. Qed.
Lemma map2_app {A B C} (f : A -> B -> C) : forall a b c d, length a = length c -> map2 f (a ++ b) (c ++ d) = map2 f a c ++ map2 f b d.
Proof.
  induction a as [|x a IH]; intros b c d H; destruct c as [|y c]; cbn in H; try discriminate; [reflexivity|].
  cbn [app]. rewrite !map2_cons. cbn [app]. f_equal. apply IH. lia.
Qed.
Lemma map_map2 {A B C D} (g : C -> D) (f : A -> B -> C) a b : map g (map2 f a b) = map2 (fun x y => g (f x y)) a b.
Proof. unfold map2. rewrite map_map. reflexivity. Qed.
Lemma map2_map_both {A B C} (f : B -> B -> C) (g : A -> B) : forall a b, map2 f (map g a) (map g b) = map2 (fun x y => f (g x) (g y)) a b.
Proof. induction a as [|x a IH]; intros [|y b]; try reflexivity. cbn [map]. rewrite !map2_cons. f_equal. apply IH. Qed.
Lemma nth_map2 {A B C} (f : A -> B -> C) da db dc : forall a b i, (i < length a)%nat -> (i < length b)%nat ->
  nth i (map2 f a b) dc = f (nth i a da) (nth i b db).
Proof.
  induction a as [|x a IH]; intros [|y b] i Ha Hb; cbn in Ha, Hb; try lia.
  rewrite map2_cons. destruct i; [reflexivity|]. cbn [nth]. apply IH; lia.
Qed.

Lemma group_bytes_xor a b : length a = length b ->
  group_bytes (map2 N.lxor a b) = map2 N.lxor (group_bytes a) (group_bytes b).
Proof.
  intros H. unfold group_bytes. rewrite map2_app by (rewrite !map_length; exact H).
  rewrite !map_map2, !map2_map_both. f_equal; unfold map2; apply map_ext; intros [x y]; cbn; [apply lo_byte_lxor|apply hi_byte_lxor].
Qed.

Lemma bytes_fuel_xor : forall f a b, length a = length b ->
  bytes_of_syms_fuel f (map2 N.lxor a b) = map2 N.lxor (bytes_of_syms_fuel f a) (bytes_of_syms_fuel f b).
Proof.
  induction f as [|f IH]; intros a b H; [reflexivity|].
  cbn [bytes_of_syms_fuel]. destruct a as [|x a]; destruct b as [|y b]; cbn in H; try discriminate; [reflexivity|].
  rewrite map2_cons. change (N.lxor x y :: map2 N.lxor a b) with (map2 N.lxor (x :: a) (y :: b)).
  set (A := x :: a) in *. set (B := y :: b) in *. assert (HAB : length A = length B) by (unfold A, B; cbn; lia).
  rewrite firstn_map2, skipn_map2.
  rewrite group_bytes_xor by (rewrite !firstn_length, HAB; reflexivity).
  rewrite IH by (rewrite !skipn_length, HAB; reflexivity).
  symmetry. apply map2_app. unfold group_bytes. rewrite !app_length, !map_length, !firstn_length, HAB. reflexivity.
Qed.
Lemma bytes_of_syms_xor a b : length a = length b ->
  bytes_of_syms (map2 N.lxor a b) = map2 N.lxor (bytes_of_syms a) (bytes_of_syms b).
Proof.
  intros H. unfold bytes_of_syms. rewrite map2_length, H, Nat.min_id. apply bytes_fuel_xor. exact H.
Qed.

Lemma W16_map2_lxor : forall a b, Forall W16 a -> Forall W16 b -> Forall W16 (map2 N.lxor a b).
Proof.
  induction a as [|x a IH]; intros [|y b] Ha Hb; try constructor.
  - inversion Ha; inversion Hb; subst. apply W16_lxor; assumption.
  - inversion Ha; inversion Hb; subst. apply IH; assumption.
Qed.

Lemma byte_lxor a b : a < 256 -> b < 256 -> N.lxor a b < 256.
Proof. change 256 with (2 ^ 8). apply lxor_lt. Qed.

Lemma byteshard_xor sb a b : byteshard sb a -> byteshard sb b -> byteshard sb (map2 N.lxor a b).
Proof.
  intros [La Ba] [Lb Bb]. split.
  - unfold blen in *. rewrite map2_length. lia.
  - clear La Lb. revert b Bb. induction a as [|x a IH]; intros [|y b] Bb; try constructor.
    + inversion Ba; inversion Bb; subst. apply byte_lxor; assumption.
    + inversion Ba; inversion Bb; subst. apply IH; assumption.
Qed.

(* the symbols of a bytewise xor are the xors of the symbols *)
Lemma syms_xor sb a b : N.even sb = true -> byteshard sb a -> byteshard sb b ->
  syms_of_bytes (map2 N.lxor a b) = map2 N.lxor (syms_of_bytes a) (syms_of_bytes b).
Proof.
  intros He Ha Hb.
  destruct (byteshard_syms sb a He Ha) as (La & Wa & Ra). destruct (byteshard_syms sb b He Hb) as (Lb & Wb & Rb).
  rewrite <- Ra at 1. rewrite <- Rb at 1. rewrite <- bytes_of_syms_xor by (rewrite La, Lb; reflexivity).
  apply unpack_pack. apply W16_map2_lxor; assumption.
Qed.

(* ---------- the closed form is additive in the slot ---------- *)
Lemma xor_sum_cons x l : xor_sum (x :: l) = N.lxor x (xor_sum l).
Proof.
  unfold xor_sum. cbn [fold_left]. rewrite N.lxor_0_l.
  assert (G : forall l a, fold_left N.lxor l a = N.lxor a (fold_left N.lxor l 0)).
  { clear. induction l as [|y l IH]; intros a; cbn [fold_left]; [rewrite N.lxor_0_r; reflexivity|].
    rewrite IH, (IH (N.lxor 0 y)), N.lxor_0_l, N.lxor_assoc. reflexivity. }
  apply G.
Qed.

Lemma row_apply_add : forall row d1 d2, length d1 = length d2 -> Forall W16 row -> Forall W16 d1 -> Forall W16 d2 ->
  row_apply row (map2 N.lxor d1 d2) = N.lxor (row_apply row d1) (row_apply row d2).
Proof.
  unfold row_apply. induction row as [|r row IH]; intros d1 d2 Hl Wr W1 W2; [reflexivity|].
  destruct d1 as [|x d1]; destruct d2 as [|y d2]; cbn in Hl; try discriminate; [reflexivity|].
  rewrite map2_cons. cbn [combine map fst snd]. rewrite !xor_sum_cons.
  inversion Wr; inversion W1; inversion W2; subst.
  rewrite IH by (try assumption; lia). rewrite fmul_lxor_r by assumption. apply lxor_4.
Qed.

Lemma cauchy_high_row_W16 K R j : npow2 R + K <= 65536 -> Forall W16 (cauchy_high_row K R j).
Proof.
  intros H. unfold cauchy_high_row. apply Forall_forall. intros v Hv. apply in_map_iff in Hv. destruct Hv as (i & <- & Hi).
  apply in_range in Hi. unfold cauchy_high_w. apply fdiv_W16. apply s_poly_lt. unfold W16. lia.
Qed.
Lemma cauchy_low_row_W16 K R j : j < R -> npow2 K + R <= 65536 -> Forall W16 (cauchy_low_row K R j).
Proof.
  intros Hj H. unfold cauchy_low_row. apply Forall_forall. intros v Hv. apply in_map_iff in Hv. destruct Hv as (i & <- & Hi).
  unfold cauchy_low_w. apply fdiv_W16. apply s_poly_lt. unfold W16. lia.
Qed.

(* ---------- shape of what an encoder returns ---------- *)
Section Out.
Variable junk : N -> N -> N -> N.
Hypothesis Hjunk : forall a b c, junk a b c < 65536.
Variables (c : codec) (ee : engine) (K R sb ep : N) (originals : list bytes).
Hypothesis Hval : validateb c K R sb = None.
Hypothesis Lorig : N.of_nat (length originals) = K.
Hypothesis Borig : Forall (byteshard sb) originals.
Variables (w0 : encwork) (x0 x : encoder) (a0 : bool).
Hypothesis Hx0 : enc_make c ee K R sb w0 = inl (x0, a0).
Hypothesis Hx : enc_add_all x0 originals = inl x.

Lemma enc_out_byteshard j : j < R -> byteshard sb (nth (N.to_nat j) (encode_shards junk ep x) []).
Proof.
  intros Hj.
  assert (Hs : supportsb c K R = true /\ bad_size sb = false).
  { unfold validateb in Hval. destruct (supportsb c K R); cbn in Hval; [|discriminate]. destruct (bad_size sb); [discriminate|auto]. }
  destruct Hs as [Hs Hbs].
  assert (Hev : N.even sb = true).
  { unfold bad_size in Hbs. apply orb_false_iff in Hbs. destruct Hbs as [_ Ho]. rewrite <- N.negb_odd, Ho. reflexivity. }
  assert (X0 : e_rate x0 = rate_of c K R /\ e_engine x0 = ee /\ ew_K (e_work x0) = K /\ ew_R (e_work x0) = R /\ ew_sb (e_work x0) = sb /\
               ew_wc (e_work x0) = enc_work_count (rate_of c K R) K R /\ ew_recv (e_work x0) = 0 /\ ew_mem (e_work x0) = mempty).
  { unfold enc_make in Hx0. rewrite Hval in Hx0. cbv zeta in Hx0. unfold encwork_reset in Hx0. cbv zeta in Hx0.
    inversion Hx0; subst x0. cbn. repeat split; reflexivity. }
  destruct X0 as (X1 & X2 & X3 & X4 & X5 & X6 & X7 & X8).
  destruct (enc_add_all_mem originals x0 x Hx) as (E1 & E2 & E3 & E4 & E5 & E6 & E7 & E8).
  rewrite X7, N.add_0_l, Lorig in E7, E8.
  assert (Hc : enc_cfg x) by (apply (enc_add_all_cfg originals x0 x (enc_make_cfg _ _ _ _ _ _ _ _ Hx0) Hx)).
  set (lanes := N.to_nat (lanes_of sb)).
  assert (Xmem : forall p s, mget (ew_mem (e_work x)) p = Some s -> length s = lanes /\ Forall W16 s).
  { intros p s. rewrite E8, X8. destruct ((0 <=? p) && (p <? K)) eqn:Ep.
    - apply andb_prop in Ep. destruct Ep as [_ Ep]. apply N.ltb_lt in Ep. intros [= <-]. rewrite N.sub_0_r.
      assert (Bp : byteshard sb (nth (N.to_nat p) originals [])).
      { rewrite Forall_forall in Borig. apply Borig. apply nth_In. unfold bytes in *. clear - Ep Lorig. lia. }
      destruct (byteshard_syms sb _ Hev Bp) as (A & B & _). split; assumption.
    - unfold mget, mempty. rewrite PositiveMap.gempty. discriminate. }
  destruct (work_list_shape junk Hjunk ep (ew_mem (e_work x)) (ew_wc (e_work x)) (lanes_of sb) Xmem) as [Hw Ww].
  (* lengths from the shape theorem *)
  pose proof (enc_encode_shape junk ep x [] (enc_after_round x) (encode_shards junk ep x) [] Hc) as Sh.
  assert (Erecv : ew_recv (e_work x) =? ew_K (e_work x) = true) by (apply N.eqb_eq; rewrite E7, E3, X3; reflexivity).
  unfold enc_encode in Sh. cbv zeta in Sh. rewrite Erecv in Sh. cbn [negb] in Sh. specialize (Sh eq_refl).
  rewrite E4, X4, E5, X5 in Sh. destruct Sh as [Ln Fb].
  split.
  - rewrite Forall_forall in Fb. apply Fb. apply nth_In. lia.
  - (* bytes: every returned shard is bytes_of_syms of 16-bit symbols *)
    unfold encode_shards in *. rewrite E1, X1, E5, X5, E3, X3, E4, X4, E2, X2 in *. fold lanes in Hw, Ww, Ln |- *.
    rewrite map_length in Ln.
    rewrite (nth_map_lt _ []) by lia.
    apply unpack_pack.
    destruct (rate_of c K R).
    + assert (Wrs := encode_high_W16 lanes ee K R _ Hw Ww). rewrite Forall_forall in Wrs. apply Wrs, nth_In. lia.
    + assert (Wrs := encode_low_W16 lanes ee K R _ Hw Ww). rewrite Forall_forall in Wrs. apply Wrs, nth_In. lia.
Qed.
End Out.

(* ---------- linearity of the streaming encoder on bytes ---------- *)
Definition bxor_shards (o1 o2 : list bytes) : list bytes := map2 (map2 N.lxor) o1 o2.

Section Lin.
Variable junk : N -> N -> N -> N.
Hypothesis Hjunk : forall a b c, junk a b c < 65536.
Variables (c : codec) (e1 e2 e3 : engine) (K R sb ep1 ep2 ep3 : N) (o1 o2 : list bytes).
Hypothesis Hval : validateb c K R sb = None.
Hypothesis L1 : N.of_nat (length o1) = K.
Hypothesis L2 : N.of_nat (length o2) = K.
Hypothesis B1 : Forall (byteshard sb) o1.
Hypothesis B2 : Forall (byteshard sb) o2.
Variables (w1 w2 w3 : encwork) (x01 x1 x02 x2 x03 x3 : encoder) (a1 a2 a3 : bool).
Hypothesis H01 : enc_make c e1 K R sb w1 = inl (x01, a1).
Hypothesis H1 : enc_add_all x01 o1 = inl x1.
Hypothesis H02 : enc_make c e2 K R sb w2 = inl (x02, a2).
Hypothesis H2 : enc_add_all x02 o2 = inl x2.
Hypothesis H03 : enc_make c e3 K R sb w3 = inl (x03, a3).
Hypothesis H3 : enc_add_all x03 (bxor_shards o1 o2) = inl x3.

Lemma bxor_shards_facts : N.of_nat (length (bxor_shards o1 o2)) = K /\ Forall (byteshard sb) (bxor_shards o1 o2).
Proof.
  unfold bxor_shards. split; [rewrite map2_length; unfold bytes in *; clear - L1 L2; lia|].
  clear - B1 B2. revert o2 B2. induction o1 as [|a o IH]; intros [|b o'] B2'; try constructor.
  - inversion B1; inversion B2'; subst. apply byteshard_xor; assumption.
  - inversion B1; inversion B2'; subst. apply IH; assumption.
Qed.

Theorem ops_encode_linear : forall j, j < R ->
  nth (N.to_nat j) (encode_shards junk ep3 x3) [] =
  map2 N.lxor (nth (N.to_nat j) (encode_shards junk ep1 x1) []) (nth (N.to_nat j) (encode_shards junk ep2 x2) []).
Proof.
  intros j Hj. destruct bxor_shards_facts as [L3 B3].
  assert (Hs : supportsb c K R = true /\ bad_size sb = false).
  { unfold validateb in Hval. destruct (supportsb c K R); cbn in Hval; [|discriminate]. destruct (bad_size sb); [discriminate|auto]. }
  destruct Hs as [Hs Hbs].
  assert (Hev : N.even sb = true).
  { unfold bad_size in Hbs. apply orb_false_iff in Hbs. destruct Hbs as [_ Ho]. rewrite <- N.negb_odd, Ho. reflexivity. }
  set (s1 := nth (N.to_nat j) (encode_shards junk ep1 x1) []).
  set (s2 := nth (N.to_nat j) (encode_shards junk ep2 x2) []).
  set (s3 := nth (N.to_nat j) (encode_shards junk ep3 x3) []).
  assert (Q1 : byteshard sb s1) by (apply (enc_out_byteshard junk Hjunk c e1 K R sb ep1 o1 Hval L1 B1 w1 x01 x1 a1 H01 H1 j Hj)).
  assert (Q2 : byteshard sb s2) by (apply (enc_out_byteshard junk Hjunk c e2 K R sb ep2 o2 Hval L2 B2 w2 x02 x2 a2 H02 H2 j Hj)).
  assert (Q3 : byteshard sb s3) by (apply (enc_out_byteshard junk Hjunk c e3 K R sb ep3 _ Hval L3 B3 w3 x03 x3 a3 H03 H3 j Hj)).
  destruct (byteshard_syms sb s1 Hev Q1) as (Ls1 & Ws1 & Rs1). destruct (byteshard_syms sb s2 Hev Q2) as (Ls2 & Ws2 & Rs2).
  destruct (byteshard_syms sb s3 Hev Q3) as (Ls3 & Ws3 & Rs3).
  rewrite <- Rs3, <- Rs1 at 1. rewrite <- Rs2 at 1. rewrite <- bytes_of_syms_xor by (rewrite Ls1, Ls2; reflexivity).
  f_equal. apply (nth_ext _ _ 0 0); [rewrite map2_length, Ls1, Ls2, Ls3, Nat.min_id; reflexivity|].
  intros l Hl. rewrite Ls3 in Hl. rewrite (nth_map2 _ 0 0) by (rewrite ?Ls1, ?Ls2; exact Hl).
  unfold s1, s2, s3.
  rewrite (ops_encode_cauchy junk Hjunk c e1 K R sb ep1 o1 Hval L1 B1 w1 x01 x1 a1 H01 H1 j l Hj Hl).
  rewrite (ops_encode_cauchy junk Hjunk c e2 K R sb ep2 o2 Hval L2 B2 w2 x02 x2 a2 H02 H2 j l Hj Hl).
  rewrite (ops_encode_cauchy junk Hjunk c e3 K R sb ep3 _ Hval L3 B3 w3 x03 x3 a3 H03 H3 j l Hj Hl).
  (* the slots of the xor are the xors of the slots *)
  assert (Eslot : slot (bxor_shards o1 o2) l = map2 N.lxor (slot o1 l) (slot o2 l)).
  { unfold slot, bxor_shards. clear - B1 B2 Hev Hl. revert o2 B2. induction o1 as [|a o IH]; intros [|b o'] B2'; try reflexivity.
    inversion B1; inversion B2'; subst. rewrite map2_cons. cbn [map]. rewrite map2_cons. f_equal; [|apply IH; assumption].
    rewrite (syms_xor sb) by assumption.
    destruct (byteshard_syms sb a Hev ltac:(assumption)) as (La & _). destruct (byteshard_syms sb b Hev ltac:(assumption)) as (Lb & _).
    apply nth_map2; [rewrite La|rewrite Lb]; exact Hl. }
  rewrite Eslot.
  assert (Wslot : forall o, Forall (byteshard sb) o -> Forall W16 (slot o l)).
  { intros o Bo. unfold slot. apply Forall_forall. intros v Hv. apply in_map_iff in Hv. destruct Hv as (b & <- & Hb).
    rewrite Forall_forall in Bo. destruct (byteshard_syms sb b Hev (Bo b Hb)) as (Lb & Wb & _).
    rewrite Forall_forall in Wb. apply Wb. apply nth_In. rewrite Lb. exact Hl. }
  assert (Lslot : length (slot o1 l) = length (slot o2 l)) by (unfold slot; rewrite !map_length; unfold bytes in *; clear - L1 L2; lia).
  destruct (rate_env c K R Hs) as [Hlow Hhigh].
  destruct (rate_of c K R) eqn:Er.
  - destruct (high_env K R (Hhigh eq_refl)) as (HK & HR & Henv).
    unfold recovery_high_spec. apply row_apply_add; auto. apply cauchy_high_row_W16. exact Henv.
  - destruct (low_env K R (Hlow eq_refl)) as (HK & HR & Henv).
    unfold recovery_low_spec. apply row_apply_add; auto. apply cauchy_low_row_W16; assumption.
Qed.
End Lin.

(* ---------- all-zero originals give all-zero recovery ---------- *)
Lemma map2_lxor_self : forall s, map2 N.lxor s s = repeat 0 (length s).
Proof. induction s as [|x s IH]; [reflexivity|]. rewrite map2_cons, N.lxor_nilpotent. cbn. f_equal. exact IH. Qed.

Section Zero.
Variable junk : N -> N -> N -> N.
Hypothesis Hjunk : forall a b c, junk a b c < 65536.
Variables (c : codec) (ee : engine) (K R sb ep : N).
Hypothesis Hval : validateb c K R sb = None.
Let zeros : list bytes := repeat (repeat 0 (N.to_nat sb)) (N.to_nat K).
Variables (w0 : encwork) (x0 x : encoder) (a0 : bool).
Hypothesis Hx0 : enc_make c ee K R sb w0 = inl (x0, a0).
Hypothesis Hx : enc_add_all x0 zeros = inl x.

Theorem ops_encode_zero : forall j, j < R -> nth (N.to_nat j) (encode_shards junk ep x) [] = repeat 0 (N.to_nat sb).
Proof.
  intros j Hj.
  assert (Lz : N.of_nat (length zeros) = K) by (unfold zeros; rewrite repeat_length; lia).
  assert (Bz : Forall (byteshard sb) zeros).
  { unfold zeros. apply Forall_forall. intros b Hb. apply repeat_spec in Hb. subst b. split.
    - unfold blen. rewrite repeat_length. lia.
    - apply Forall_forall. intros v Hv. apply repeat_spec in Hv. subst v. lia. }
  assert (Ez : bxor_shards zeros zeros = zeros).
  { unfold bxor_shards, zeros. generalize (N.to_nat K) as n. induction n as [|n IH]; [reflexivity|].
    cbn [repeat]. rewrite map2_cons, IH. f_equal. rewrite map2_lxor_self, repeat_length. reflexivity. }
  pose proof Hx as Hx3. rewrite <- Ez in Hx3.
  pose proof (ops_encode_linear junk Hjunk c ee ee ee K R sb ep ep ep zeros zeros Hval Lz Lz Bz Bz w0 w0 w0 x0 x x0 x x0 x a0 a0 a0 Hx0 Hx Hx0 Hx Hx0 Hx3 j Hj) as L.
  rewrite map2_lxor_self in L. rewrite L. f_equal.
  destruct (enc_out_byteshard junk Hjunk c ee K R sb ep zeros Hval Lz Bz w0 x0 x a0 Hx0 Hx j Hj) as [Q _].
  unfold blen in Q. lia.
Qed.
End Zero.

(* ---------- multiplying every original symbol by a constant ---------- *)
Definition scale_bytes (k : N) (b : bytes) : bytes := bytes_of_syms (map (fmul k) (syms_of_bytes b)).

Lemma row_apply_scale k : W16 k -> forall row d, Forall W16 row -> Forall W16 d ->
  row_apply row (map (fmul k) d) = fmul k (row_apply row d).
Proof.
  intros Wk. unfold row_apply. induction row as [|r row IH]; intros d Wr Wd; [reflexivity|].
  destruct d as [|x d]; [reflexivity|]. cbn [map combine fst snd]. rewrite !xor_sum_cons.
  inversion Wr; inversion Wd; subst. rewrite IH by assumption.
  assert (Wrest : W16 (xor_sum (map (fun p => fmul (fst p) (snd p)) (combine row d)))).
  { clear - H2 H6. revert d H6. induction row as [|r' row IH]; intros d Wd; [apply W16_0|]. destruct d as [|y d]; [apply W16_0|].
    cbn [combine map fst snd]. rewrite xor_sum_cons. inversion H2; inversion Wd; subst. apply W16_lxor; [apply fmul_lt; assumption|apply IH; assumption]. }
  rewrite fmul_lxor_r by (try assumption; apply fmul_lt; assumption). f_equal.
  rewrite <- fmul_assoc by assumption. rewrite (fmul_comm r k) by assumption. apply fmul_assoc; assumption.
Qed.

Lemma scale_bytes_facts k sb b : W16 k -> N.even sb = true -> byteshard sb b ->
  byteshard sb (scale_bytes k b) /\ syms_of_bytes (scale_bytes k b) = map (fmul k) (syms_of_bytes b).
Proof.
  intros Wk He Hb. destruct (byteshard_syms sb b He Hb) as (L & Wb & Rb).
  assert (Ws : Forall W16 (map (fmul k) (syms_of_bytes b))).
  { apply Forall_forall. intros v Hv. apply in_map_iff in Hv. destruct Hv as (u & <- & Hu). rewrite Forall_forall in Wb. apply fmul_lt; auto. }
  destruct (unpack_pack _ Ws) as (U1 & U2 & U3). unfold scale_bytes. split; [|exact U1].
  split; [|exact U3]. unfold blen. rewrite U2, map_length, L.
  destruct Hb as [Lb _]. pose proof (unpack_pack _ Wb) as (_ & V2 & _). rewrite Rb, L in V2. unfold blen in Lb. lia.
Qed.

Section Scale.
Variable junk : N -> N -> N -> N.
Hypothesis Hjunk : forall a b c, junk a b c < 65536.
Variables (c : codec) (e1 e2 : engine) (K R sb ep1 ep2 k : N) (o : list bytes).
Hypothesis Hval : validateb c K R sb = None.
Hypothesis Wk : k < 65536.
Hypothesis Lo : N.of_nat (length o) = K.
Hypothesis Bo : Forall (byteshard sb) o.
Variables (w1 w2 : encwork) (x01 x1 x02 x2 : encoder) (a1 a2 : bool).
Hypothesis H01 : enc_make c e1 K R sb w1 = inl (x01, a1).
Hypothesis H1 : enc_add_all x01 o = inl x1.
Hypothesis H02 : enc_make c e2 K R sb w2 = inl (x02, a2).
Hypothesis H2 : enc_add_all x02 (map (scale_bytes k) o) = inl x2.

Theorem ops_encode_scale : forall j, j < R ->
  nth (N.to_nat j) (encode_shards junk ep2 x2) [] = scale_bytes k (nth (N.to_nat j) (encode_shards junk ep1 x1) []).
Proof.
  intros j Hj.
  assert (Hs : supportsb c K R = true /\ bad_size sb = false).
  { unfold validateb in Hval. destruct (supportsb c K R); cbn in Hval; [|discriminate]. destruct (bad_size sb); [discriminate|auto]. }
  destruct Hs as [Hs Hbs].
  assert (Hev : N.even sb = true).
  { unfold bad_size in Hbs. apply orb_false_iff in Hbs. destruct Hbs as [_ Ho]. rewrite <- N.negb_odd, Ho. reflexivity. }
  assert (L2 : N.of_nat (length (map (scale_bytes k) o)) = K) by (rewrite map_length; exact Lo).
  assert (B2 : Forall (byteshard sb) (map (scale_bytes k) o)).
  { apply Forall_forall. intros b Hb. apply in_map_iff in Hb. destruct Hb as (b0 & <- & Hb0). rewrite Forall_forall in Bo.
    apply (scale_bytes_facts k sb b0 Wk Hev (Bo b0 Hb0)). }
  set (s1 := nth (N.to_nat j) (encode_shards junk ep1 x1) []).
  set (s2 := nth (N.to_nat j) (encode_shards junk ep2 x2) []).
  assert (Q1 : byteshard sb s1) by (apply (enc_out_byteshard junk Hjunk c e1 K R sb ep1 o Hval Lo Bo w1 x01 x1 a1 H01 H1 j Hj)).
  assert (Q2 : byteshard sb s2) by (apply (enc_out_byteshard junk Hjunk c e2 K R sb ep2 _ Hval L2 B2 w2 x02 x2 a2 H02 H2 j Hj)).
  destruct (byteshard_syms sb s1 Hev Q1) as (Ls1 & Ws1 & Rs1). destruct (byteshard_syms sb s2 Hev Q2) as (Ls2 & Ws2 & Rs2).
  rewrite <- Rs2. unfold scale_bytes. f_equal.
  apply (nth_ext _ _ 0 0); [rewrite map_length, Ls1, Ls2; reflexivity|].
  intros l Hl. rewrite Ls2 in Hl.
  replace 0 with (fmul k 0) at 2 by reflexivity. rewrite map_nth.
  unfold s1, s2.
  rewrite (ops_encode_cauchy junk Hjunk c e1 K R sb ep1 o Hval Lo Bo w1 x01 x1 a1 H01 H1 j l Hj Hl).
  rewrite (ops_encode_cauchy junk Hjunk c e2 K R sb ep2 _ Hval L2 B2 w2 x02 x2 a2 H02 H2 j l Hj Hl).
  assert (Eslot : slot (map (scale_bytes k) o) l = map (fmul k) (slot o l)).
  { unfold slot. rewrite !map_map. apply map_ext_in. intros b Hb. rewrite Forall_forall in Bo.
    destruct (scale_bytes_facts k sb b Wk Hev (Bo b Hb)) as [_ E]. rewrite E.
    replace 0 with (fmul k 0) at 1 by reflexivity. apply map_nth. }
  rewrite Eslot.
  assert (Wslot : Forall W16 (slot o l)).
  { unfold slot. apply Forall_forall. intros v Hv. apply in_map_iff in Hv. destruct Hv as (b & <- & Hb).
    rewrite Forall_forall in Bo. destruct (byteshard_syms sb b Hev (Bo b Hb)) as (Lb & Wb & _).
    rewrite Forall_forall in Wb. apply Wb. apply nth_In. rewrite Lb. exact Hl. }
  destruct (rate_env c K R Hs) as [Hlow Hhigh].
  destruct (rate_of c K R) eqn:Er.
  - destruct (high_env K R (Hhigh eq_refl)) as (HK & HR & Henv).
    unfold recovery_high_spec. apply row_apply_scale; auto. apply cauchy_high_row_W16. exact Henv.
  - destruct (low_env K R (Hlow eq_refl)) as (HK & HR & Henv).
    unfold recovery_low_spec. apply row_apply_scale; auto. apply cauchy_low_row_W16; assumption.
Qed.
End Scale.

(* ---------- the engine does not matter (C03 at the level of encoder objects) ---------- *)
Section Engines.
Variable junk1 junk2 : N -> N -> N -> N.
Hypothesis Hjunk1 : forall a b c, junk1 a b c < 65536.
Hypothesis Hjunk2 : forall a b c, junk2 a b c < 65536.
Variables (c : codec) (e1 e2 : engine) (K R sb ep1 ep2 : N) (o : list bytes).
Hypothesis Hval : validateb c K R sb = None.
Hypothesis Lo : N.of_nat (length o) = K.
Hypothesis Bo : Forall (byteshard sb) o.
Variables (w1 w2 : encwork) (x01 x1 x02 x2 : encoder) (a1 a2 : bool).
Hypothesis H01 : enc_make c e1 K R sb w1 = inl (x01, a1).
Hypothesis H1 : enc_add_all x01 o = inl x1.
Hypothesis H02 : enc_make c e2 K R sb w2 = inl (x02, a2).
Hypothesis H2 : enc_add_all x02 o = inl x2.

Theorem ops_encode_engines : forall j, j < R ->
  nth (N.to_nat j) (encode_shards junk1 ep1 x1) [] = nth (N.to_nat j) (encode_shards junk2 ep2 x2) [].
Proof.
  intros j Hj.
  assert (Hs : supportsb c K R = true /\ bad_size sb = false).
  { unfold validateb in Hval. destruct (supportsb c K R); cbn in Hval; [|discriminate]. destruct (bad_size sb); [discriminate|auto]. }
  destruct Hs as [Hs Hbs].
  assert (Hev : N.even sb = true).
  { unfold bad_size in Hbs. apply orb_false_iff in Hbs. destruct Hbs as [_ Ho]. rewrite <- N.negb_odd, Ho. reflexivity. }
  set (s1 := nth (N.to_nat j) (encode_shards junk1 ep1 x1) []).
  set (s2 := nth (N.to_nat j) (encode_shards junk2 ep2 x2) []).
  assert (Q1 : byteshard sb s1) by (apply (enc_out_byteshard junk1 Hjunk1 c e1 K R sb ep1 o Hval Lo Bo w1 x01 x1 a1 H01 H1 j Hj)).
  assert (Q2 : byteshard sb s2) by (apply (enc_out_byteshard junk2 Hjunk2 c e2 K R sb ep2 o Hval Lo Bo w2 x02 x2 a2 H02 H2 j Hj)).
  destruct (byteshard_syms sb s1 Hev Q1) as (Ls1 & Ws1 & Rs1). destruct (byteshard_syms sb s2 Hev Q2) as (Ls2 & Ws2 & Rs2).
  rewrite <- Rs1, <- Rs2. f_equal.
  apply (nth_ext _ _ 0 0); [rewrite Ls1, Ls2; reflexivity|].
  intros l Hl. rewrite Ls1 in Hl. unfold s1, s2.
  rewrite (ops_encode_cauchy junk1 Hjunk1 c e1 K R sb ep1 o Hval Lo Bo w1 x01 x1 a1 H01 H1 j l Hj Hl).
  rewrite (ops_encode_cauchy junk2 Hjunk2 c e2 K R sb ep2 o Hval Lo Bo w2 x02 x2 a2 H02 H2 j l Hj Hl).
  reflexivity.
Qed.
End Engines.
