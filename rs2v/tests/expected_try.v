(* t.rs :: f *)
Definition f (a b : N) : res (rres N) :=
  guard (Val (negb (N.eqb a 3))) (
  if N.ltb b a then Val (RErr (UnsupportedShardCount a b)) else
  t0 <- usub W_usize b a ;;
  Val (ROk t0)).

(* t.rs :: g *)
Definition g (a b : N) : res (rres (N * bool)) :=
  t0 <- f a b ;;
  match t0 with
  | RErr err_ => Val (RErr err_)
  | ROk t1 =>
  let d := t1 in
  t2 <- urem W_usize d 2 ;;
  e <- (if N.eqb t2 0 then udiv W_usize d 2 else if N.eqb (N.min d 7) 7 then umul W_usize d 3 else ushl W_usize 1 d) ;;
  t3 <- f e GF_ORDER ;;
  match t3 with
  | RErr err_ => Val (RErr err_)
  | ROk t4 =>
  k <- uadd W_usize t4 1 ;;
  match ncmp k d with
  | OLess => (t5 <- f k d ;;
  Val (ROk (k, (match t5 with ROk _ => false | RErr _ => true end))))
  | OEqual => (t6 <- ushr W_usize k GF_BITS ;;
  let x := cast W_u16 t6 in
  Val (ROk (x, true)))
  | OGreater => (t7 <- f d k ;;
  match t7 with
  | RErr err_ => Val (RErr err_)
  | ROk t8 =>
  Val (RErr (InvalidShardSize t8))
  end)
  end
  end
  end.
