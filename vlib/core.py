# Shared infrastructure for ./check: building, running implementation (Rust harness)
# and model (extracted Coq), comparing, verdicts, evidence.
import fcntl
import json
import os
import random
import re
import shutil
import subprocess
import sys
import time

VERIF = os.path.dirname(os.path.dirname(os.path.abspath(__file__)))
REPO = '/repo'
BUILD = os.path.join(VERIF, 'build')
COQ = os.path.join(VERIF, 'coq')
OCAML = os.path.join(VERIF, 'ocaml')
HARNESS = os.path.join(VERIF, 'harness')
RS2V = os.path.join(VERIF, 'rs2v')
DRIVER = os.path.join(OCAML, '_build', 'default', 'driver.exe')
NPROC = 16
MASK64 = (1 << 64) - 1

ENV = dict(os.environ, CARGO_NET_OFFLINE='true', OCAMLRUNPARAM='s=8M')


def rsh(profile):
    return os.path.join(HARNESS, 'target', profile, 'rsh')


def log(*a):
    print(*a, file=sys.stderr, flush=True)


def sh(cmd, cwd=None, timeout=None, env=None):
    p = subprocess.run(cmd, cwd=cwd, timeout=timeout, env=env or ENV, stdout=subprocess.PIPE,
                       stderr=subprocess.STDOUT, text=True, errors='replace')
    return p.returncode, p.stdout


# ---------------------------------------------------------------- PRNG / payloads
def prng_bytes(seed, n):
    out = bytearray()
    state = seed & MASK64
    while len(out) < n:
        state = (state + 0x9E3779B97F4A7C15) & MASK64
        z = state
        z = ((z ^ (z >> 30)) * 0xBF58476D1CE4E5B9) & MASK64
        z = ((z ^ (z >> 27)) * 0x94D049BB133111EB) & MASK64
        z ^= z >> 31
        out += z.to_bytes(8, 'little')
    return bytes(out[:n])


def hexs(b):
    return b.hex() if len(b) else '-'


def unhex(s):
    return b'' if s == '-' else bytes.fromhex(s)


# ---------------------------------------------------------------- build
class Obligation(Exception):
    """A proof obligation / translation step no longer checks."""

    def __init__(self, what, detail):
        super().__init__(what)
        self.what = what
        self.detail = detail


def _locked(fn):
    def wrapper(*a, **k):
        os.makedirs(BUILD, exist_ok=True)
        with open(os.path.join(BUILD, '.lock'), 'w') as lk:
            fcntl.flock(lk, fcntl.LOCK_EX)
            try:
                return fn(*a, **k)
            finally:
                fcntl.flock(lk, fcntl.LOCK_UN)
    return wrapper


FORBIDDEN = re.compile(r'\b(Admitted|admit|Axiom|Parameter|Conjecture|Unset Guard|bypass_check|Admit Obligations|Hypothesis|Variable)\b')


def scan_forbidden():
    """Admitted/Axiom/... anywhere in the development (Variable/Hypothesis only inside sections)."""
    bad = []
    for root, _, files in os.walk(COQ):
        for f in files:
            if not f.endswith('.v'):
                continue
            depth = 0
            path = os.path.join(root, f)
            text = open(path).read()
            text = re.sub(r'\(\*.*?\*\)', '', text, flags=re.S)
            for ln, line in enumerate(text.split('\n'), 1):
                if re.match(r'\s*Section\b', line):
                    depth += 1
                if re.match(r'\s*End\b', line) and depth > 0:
                    depth -= 1
                m = FORBIDDEN.search(line)
                if m:
                    w = m.group(1)
                    if w in ('Variable', 'Hypothesis') and depth > 0:
                        continue
                    if w in ('Variable', 'Hypothesis', 'Parameter') and not re.match(r'\s*(Variable|Hypothesis|Parameter)s?\b', line):
                        continue
                    bad.append('%s:%d: %s' % (os.path.relpath(path, VERIF), ln, line.strip()))
    return bad


ALLOWED_AXIOMS = set()   # every property theorem is expected to be closed under the global context


@_locked
def closure_digest(prop):
    """sha256 over all .vo files of this development that Props/<prop>.vo depends on (from coq_makefile's .Makefile.d)"""
    import hashlib
    deps = {}
    for line in open(os.path.join(COQ, '.Makefile.d')):
        m = re.match(r'^(\S+\.vo) [^:]*: (.*)$', line)
        if m:
            deps[m.group(1)] = [d for d in m.group(2).split() if d.endswith('.vo')]
    seen, todo = set(), ['Props/%s.vo' % prop]
    while todo:
        f = todo.pop()
        if f in seen:
            continue
        seen.add(f)
        todo += deps.get(f, [])
    h = hashlib.sha256()
    for f in sorted(seen):
        h.update(f.encode())
        h.update(open(os.path.join(COQ, f), 'rb').read())
    return h.hexdigest()


def coqchk_closure(prop, info, budget_s=3 * 3600):
    """thorough tier: re-check Props/<prop>.vo and everything it depends on with the independent checker coqchk
    and read the axioms it reports. The cache key is the digest of every compiled file of this development in
    the closure (a .vo records only the digest of the non-opaque part of what it requires, so the property's
    own .vo would not pin the proof bodies below it). coqchk re-runs every vm_compute sweep with its own lazy
    machine: seconds for most properties, up to an hour for those resting on the 2^16 table sweeps."""
    key = closure_digest(prop)
    cache = os.path.join(BUILD, 'coqchk_%s.json' % prop)
    if os.path.exists(cache):
        c = json.load(open(cache))
        if c.get('key') == key:
            info['coqchk'] = dict(c, cached=True)
            return
    t0 = time.time()
    try:
        rc, out = sh(['coqchk', '-o', '-silent', '-Q', 'Gen', 'RS.Gen', '-Q', 'Model', 'RS.Model', '-Q', 'Proofs', 'RS.Proofs',
                      '-Q', 'Props', 'RS.Props', 'RS.Props.' + prop], cwd=COQ, timeout=budget_s)
    except subprocess.TimeoutExpired:
        info['coqchk'] = {'result': 'not completed within %d s (not counted either way)' % budget_s}
        return
    m = re.search(r'\* Axioms:(.*?)\n\s*\n\* Constants/Inductives relying on type-in-type:(.*?)\n\s*\n\* Constants/Inductives relying on unsafe \(co\)fixpoints:(.*?)\n\s*\n\* Inductives whose positivity is assumed:(.*?)\n', out + '\n\n', flags=re.S)
    fields = [x.strip() for x in m.groups()] if m else None
    res = {'key': key, 'rc': rc, 'wall_s': round(time.time() - t0, 1), 'axioms': fields[0] if fields else None,
           'type_in_type': fields[1] if fields else None, 'unsafe_fix': fields[2] if fields else None,
           'assumed_positive': fields[3] if fields else None}
    if rc != 0 or not fields:
        raise Obligation('coqchk rejects the compiled closure of Props/%s.vo' % prop, out[-3000:])
    if any(f != '<none>' for f in fields):
        raise Obligation('coqchk reports axioms or unchecked definitions under Props/%s.vo' % prop, out[-3000:])
    res['result'] = 'accepted; Axioms: <none>'
    with open(cache, 'w') as f:
        json.dump(res, f)
    info['coqchk'] = res


def prepare(prop, need_model=True, need_harness=True, profiles=('release',), tier='quick'):
    """Regenerate Gen/*.v from /repo, rebuild the Coq target of the property, the
    extracted model and the harness. Returns dict with proof info; raises Obligation."""
    info = {'rs2v': None, 'coq_s': 0.0, 'theorems': [], 'assumptions': {}}
    t0 = time.time()
    # 1. translator
    rs2v_bin = os.path.join(RS2V, 'target', 'release', 'rs2v')
    if not os.path.exists(rs2v_bin):
        rc, out = sh(['cargo', 'build', '--offline', '--release'], cwd=RS2V, timeout=1200)
        if rc != 0:
            raise RuntimeError('cannot build rs2v:\n' + out[-2000:])
    rc, out = sh([rs2v_bin, os.path.join(REPO, 'src'), os.path.join(COQ, 'Gen')], timeout=120)
    info['rs2v'] = out.strip().split('\n')[-8:]
    if rc != 0:
        raise Obligation('translator rs2v (source left the translatable subset)', out[-3000:])
    # 2. Coq
    if not os.path.exists(os.path.join(COQ, 'Makefile')):
        sh(['coq_makefile', '-f', '_CoqProject', '-o', 'Makefile'], cwd=COQ)
    target = 'Props/%s.vo' % prop
    rc, out = sh(['make', '-j%d' % NPROC, target], cwd=COQ, timeout=3000)
    info['coq_s'] = time.time() - t0
    if rc != 0:
        m = re.search(r'File "([^"]+)", line (\d+)', out)
        where = ('%s:%s' % (m.group(1), m.group(2))) if m else target
        raise Obligation('Coq proof obligation at ' + where, out[-3000:])
    # Print Assumptions for every theorem of the property file, re-run on every check
    src = open(os.path.join(COQ, 'Props', prop + '.v')).read()
    src_nc = re.sub(r'\(\*.*?\*\)', '', src, flags=re.S)
    info['theorems'] = re.findall(r'^\s*(?:Theorem|Lemma|Example|Corollary)\s+(\w+)', src_nc, flags=re.M)
    info['n_print_assumptions'] = len(info['theorems'])
    pa_v = os.path.join(BUILD, 'pa_%s.v' % prop)
    with open(pa_v, 'w') as f:
        f.write('From RS.Props Require Import %s.\n' % prop)
        for t in info['theorems']:
            f.write('Print Assumptions %s.\n' % t)
    rc, pa = sh(['coqc', '-Q', 'Gen', 'RS.Gen', '-Q', 'Model', 'RS.Model', '-Q', 'Proofs', 'RS.Proofs', '-Q', 'Props', 'RS.Props',
                 '-o', os.path.join(BUILD, 'pa_%s.vo' % prop), pa_v], cwd=COQ, timeout=600)
    if rc != 0:
        raise Obligation('Print Assumptions run failed for ' + prop, pa[-3000:])
    info['closed'] = pa.count('Closed under the global context')
    axioms = re.findall(r'^Axioms:\n((?:.+\n)+)', pa, flags=re.M)
    info['axioms'] = axioms
    bad = scan_forbidden()
    if bad:
        raise Obligation('forbidden construct in development', '\n'.join(bad))
    if axioms:
        raise Obligation('a property theorem depends on axioms', '\n'.join(axioms))
    if info['closed'] < info['n_print_assumptions']:
        raise Obligation('Print Assumptions output incomplete', pa[-2000:])
    if tier == 'thorough':
        coqchk_closure(prop, info)
    # 3. extraction + driver
    if need_model:
        rc, out = sh(['make', '-j%d' % NPROC, 'Extract/Extract.vo'], cwd=COQ, timeout=3000)
        if rc != 0:
            raise Obligation('Coq model does not compile (Extract)', out[-3000:])
        changed = False
        for f in ('model.ml', 'model.mli'):
            src_f = os.path.join(COQ, f)
            dst_f = os.path.join(OCAML, f)
            if os.path.exists(src_f):
                new = open(src_f).read()
                if not os.path.exists(dst_f) or open(dst_f).read() != new:
                    open(dst_f, 'w').write(new)
                    changed = True
        if changed or not os.path.exists(DRIVER):
            rc, out = sh(['dune', 'build', './driver.exe'], cwd=OCAML, timeout=600)
            if rc != 0:
                raise RuntimeError('cannot build OCaml driver:\n' + out[-3000:])
    # 4. harness against the current /repo working tree
    if need_harness:
        for prof in profiles:
            cmd = ['cargo', 'build', '--offline'] + (['--release'] if prof == 'release' else [])
            rc, out = sh(cmd, cwd=HARNESS, timeout=1800)
            if rc != 0:
                raise RuntimeError('cannot build harness (%s) against /repo:\n%s' % (prof, out[-3000:]))
    info['prepare_s'] = time.time() - t0
    return info


# ---------------------------------------------------------------- running cases
class Case:
    __slots__ = ('id', 'ops', 'meta')

    def __init__(self, cid, ops, meta=None):
        self.id = cid
        self.ops = ops
        self.meta = meta or {}

    def line(self):
        return self.id + ' ' + ' ; '.join(self.ops)


def _run_shards(cmds):
    procs = []
    for cmd, env in cmds:
        procs.append(subprocess.Popen(cmd, env=env, stdout=subprocess.PIPE, stderr=subprocess.STDOUT,
                                      preexec_fn=_unlimit_stack))
    outs = []
    for p in procs:
        o, _ = p.communicate()
        outs.append((p.returncode, o.decode(errors='replace')))
    return outs


def _unlimit_stack():
    import resource
    try:
        resource.setrlimit(resource.RLIMIT_STACK, (resource.RLIM_INFINITY, resource.RLIM_INFINITY))
    except Exception:
        try:
            resource.setrlimit(resource.RLIMIT_STACK, (1 << 30, 1 << 30))
        except Exception:
            pass


def _parse_results(path, res):
    with open(path) as f:
        for line in f:
            line = line.rstrip('\n')
            if not line:
                continue
            a = line.find(' ')
            b = line.find(' ', a + 1)
            cid = line[:a]
            idx = int(line[a + 1:b])
            lst = res.setdefault(cid, [])
            while len(lst) <= idx:
                lst.append(None)
            lst[idx] = line[b + 1:]


def run_cases(which, cases, tag, profile='release', poison=0, alloc=False, adm=False, weights=None):
    """which: 'impl' or 'model'. Returns dict id -> list of result strings."""
    if not cases:
        return {}
    work = os.path.join(BUILD, 'run', tag)
    os.makedirs(work, exist_ok=True)
    nsh = min(NPROC, len(cases))
    # balance shards by estimated cost
    order = sorted(range(len(cases)), key=lambda i: -(weights[i] if weights else len(cases[i].ops)))
    shards = [[] for _ in range(nsh)]
    load = [0] * nsh
    for i in order:
        k = load.index(min(load))
        shards[k].append(cases[i])
        load[k] += (weights[i] if weights else len(cases[i].ops)) + 1
    cmds = []
    outs = []
    for k, sh_cases in enumerate(shards):
        cf = os.path.join(work, '%s_%d.case' % (which, k))
        of = os.path.join(work, '%s_%d.out' % (which, k))
        with open(cf, 'w') as f:
            for c in sh_cases:
                f.write(c.line() + '\n')
        if os.path.exists(of):
            os.remove(of)
        outs.append(of)
        env = dict(ENV)
        if which == 'impl':
            cmd = [rsh(profile), 'run', cf, of] + (['--alloc'] if alloc else [])
            if poison:
                env['VERIF_POISON'] = str(poison)
        else:
            cmd = [DRIVER, 'run', cf, of] + (['--alloc'] if alloc else []) + (['--adm'] if adm else [])
        cmds.append((cmd, env))
    rcs = _run_shards(cmds)
    res = {}
    for (rc, out), of in zip(rcs, outs):
        if os.path.exists(of):
            _parse_results(of, res)
        if rc != 0:
            log('%s shard failed rc=%s: %s' % (which, rc, out[-500:]))
            res.setdefault('__failed__', []).append(out[-500:])
    return res


def run_oracle(lines, tag):
    """lines: list of oracle query strings 'id kind args'. Returns dict id -> rest (or list for rmax)."""
    if not lines:
        return {}
    work = os.path.join(BUILD, 'run', tag)
    os.makedirs(work, exist_ok=True)
    nsh = min(NPROC, len(lines))
    cmds, outs = [], []
    for k in range(nsh):
        cf = os.path.join(work, 'oracle_%d.q' % k)
        of = os.path.join(work, 'oracle_%d.out' % k)
        with open(cf, 'w') as f:
            for l in lines[k::nsh]:
                f.write(l + '\n')
        outs.append(of)
        cmds.append(([DRIVER, 'oracle', cf, of], dict(ENV)))
    _run_shards(cmds)
    res = {}
    for of in outs:
        if os.path.exists(of):
            for line in open(of):
                line = line.rstrip('\n')
                a = line.find(' ')
                res.setdefault(line[:a], []).append(line[a + 1:])
    return res


# ---------------------------------------------------------------- result parsing
def split_adm(s):
    """model line with --adm -> (result, [admissible errors])"""
    if s is None:
        return None, []
    k = s.find(' | adm=')
    if k < 0:
        return s, []
    adm = s[k + 7:]
    # strip possible alloc suffix
    m = re.search(r' A=\S+$', adm)
    if m:
        adm = adm[:m.start()]
    return s[:k], ([] if adm == '-' else adm.split(';'))


def parse_list(s):
    return [] if s == '-' else s.split(',')


def parse_round(res):
    """'ok it=.. x=.. p=..' -> (it list of str, x, probes dict) or None"""
    if res is None or not res.startswith('ok it='):
        return None
    parts = res.split(' ')
    it = parse_list(parts[1][3:])
    x = parts[2][2:]
    pr = {}
    for item in parse_list(parts[3][2:]):
        k, v = item.split('=')
        pr[int(k)] = v
    return it, x, pr


def parse_map(items):
    d = {}
    for it in items:
        k, v = it.split(':', 1)
        d[int(k)] = v
    return d


# ---------------------------------------------------------------- comparison
def compare(cases, impl, model, with_adm=False, ignore=None):
    """Correspondence: returns list of mismatches (case, opidx, impl, model, benign)."""
    mism = []
    for c in cases:
        ri = impl.get(c.id, [])
        rm = model.get(c.id, [])
        for k in range(len(c.ops)):
            a = ri[k] if k < len(ri) else None
            b = rm[k] if k < len(rm) else None
            if ignore and ignore(c, k, a, b):
                continue
            adm = []
            if with_adm:
                b, adm = split_adm(b)
            if b == 'skip' or (a is not None and a.startswith('badcase') and b is not None and b.startswith('badcase')):
                continue
            if a == b:
                continue
            benign = bool(a and a.startswith('err ') and a[4:] in adm)
            mism.append((c, k, a, b, benign))
    return mism


# ---------------------------------------------------------------- verdict / evidence
class Verdict:
    def __init__(self, prop, tier, seed):
        self.prop = prop
        self.tier = tier
        self.seed = seed
        self.t0 = time.time()
        self.violations = []       # (summary, replay dict, has_input)
        self.known = []
        self.evaluations = 0
        self.nontrivial = set()
        self.samples = []
        self.hist = {}
        self.notes = []
        self.proof = None
        self.extra = {}

    def count(self, key, n=1):
        self.hist[key] = self.hist.get(key, 0) + n

    def violation(self, summary, replay, has_input=True):
        self.violations.append((summary, replay, has_input))


def load_known():
    p = os.path.join(VERIF, 'known_findings.json')
    if os.path.exists(p):
        return json.load(open(p))
    return {'known': [], 'fixed': []}


def finish(v, level, rule, trusted, assumptions, explanation=None):
    """Write evidence, print VIOLATION / KNOWN-FINDING lines, return exit code."""
    os.makedirs(os.path.join(VERIF, 'evidence'), exist_ok=True)
    os.makedirs(os.path.join(VERIF, 'replays'), exist_ok=True)
    known = [k for k in load_known().get('known', []) if k.get('property') == v.prop]
    real = []
    for (summary, replay, has_input) in v.violations:
        matched = None
        for k in known:
            if k.get('match') and re.search(k['match'], json.dumps(replay, sort_keys=True)):
                matched = k
                break
        if matched:
            print('KNOWN-FINDING: property=%s %s' % (v.prop, matched.get('what', summary)))
        else:
            real.append((summary, replay, has_input))
    cov = {
        'evaluations': max(v.evaluations, 1),
        'distinct_nontrivial': len(v.nontrivial),
        'rule': rule,
        'samples': v.samples[:6] if v.samples else ['(no cases generated)'],
        'input_distribution': dict(sorted(v.hist.items())),
    }
    if v.proof:
        thms = v.proof.get('theorems', [])
        cov['obligations'] = max(len(thms), 1)
        cov['discharged'] = len(thms) if not v.proof.get('broken') else 0
        cov['theorems'] = thms
        cov['checker_cmd'] = 'make -C /verif/coq Props/%s.vo  (coqc 8.16.1, full .vo build; Print Assumptions under every property theorem)' % v.prop
        cov['trusted_base'] = trusted
        cov['print_assumptions_closed'] = v.proof.get('closed', 0)
        cov['prepare_s'] = round(v.proof.get('prepare_s', 0), 1)
        if v.proof.get('coqchk'):
            cov['coqchk'] = v.proof['coqchk']
    if explanation:
        cov['explanation'] = explanation
    cov.update(v.extra)
    ev = {
        'property_id': v.prop,
        'tier': v.tier,
        'seed': v.seed,
        'level': level,
        'coverage': cov,
        'assumptions': assumptions,
        'wall_s': round(time.time() - v.t0, 2),
        'violations': len(real),
        'notes': v.notes,
    }
    with open(os.path.join(VERIF, 'evidence', v.prop + '.json'), 'w') as f:
        json.dump(ev, f, indent=1)
    rc = 0
    for n, (summary, replay, has_input) in enumerate(real[:5]):
        path = os.path.join(VERIF, 'replays', '%s-%d-%d.json' % (v.prop, v.seed, n))
        if 'poison_seed' in v.extra and 'poison_seed' not in replay:
            replay = dict(replay, poison_seed=v.extra['poison_seed'])
        summary = summary if len(summary) <= 600 else summary[:600] + ' ...'
        replay = dict(replay, property=v.prop, summary=summary, seed=v.seed, tier=v.tier,
                      replay_cmd='./check %s --replay %s' % (v.prop, path))
        with open(path, 'w') as f:
            json.dump(replay, f, indent=1, default=lambda o: o.hex() if isinstance(o, (bytes, bytearray)) else str(o))
        print('VIOLATION property=%s replay=%s%s' % (v.prop, path, '' if has_input else ' no-failing-input-found'))
        rc = 1
    if rc == 0:
        print('OK property=%s tier=%s evaluations=%d wall=%.1fs' % (v.prop, v.tier, v.evaluations, time.time() - v.t0))
    return rc


@_locked
def prepare_fallback():
    """after a broken obligation: make sure harness and (if it still builds) the model driver exist"""
    for prof in ('release', 'debug'):
        cmd = ['cargo', 'build', '--offline'] + (['--release'] if prof == 'release' else [])
        sh(cmd, cwd=HARNESS, timeout=1800)
    rc, out = sh(['make', '-j%d' % NPROC, 'Extract/Extract.vo'], cwd=COQ, timeout=3000)
    if rc == 0:
        for f in ('model.ml', 'model.mli'):
            if os.path.exists(os.path.join(COQ, f)):
                shutil.copy(os.path.join(COQ, f), os.path.join(OCAML, f))
        sh(['dune', 'build', './driver.exe'], cwd=OCAML, timeout=600)
