(* Specification side of C06/C10: for every state and call, the set of errors
   that truthfully describe a violated documented precondition. An
   implementation may report any member; it must report one when the set is
   non-empty and must succeed when it is empty (MachineFacts.v proves this of
   the model). *)
From Coq Require Import NArith List Bool FMapPositive.
From RS.Gen Require Import Prelude GenConsts.
From RS.Model Require Import Field Tables Sched Codec Layout Machine.
Import ListNotations.
Local Open Scope N_scope.

Definition adm_config (c : codec) (K R sb : N) : list error :=
  (if negb (supportsb c K R) then [UnsupportedShardCount K R] else []) ++
  (if bad_size sb then [InvalidShardSize sb] else []).

Definition adm_len (sb : N) (shard : bytes) : list error :=
  if negb (blen shard =? sb) then [DifferentShardSize sb (blen shard)] else [].

Definition adm_enc_add (w : encwork) (shard : bytes) : list error :=
  (if ew_recv w =? ew_K w then [TooManyOriginalShards (ew_K w)] else []) ++ adm_len (ew_sb w) shard.

Definition adm_dec_addo (w : decwork) (idx : N) (shard : bytes) : list error :=
  (if dw_K w <=? idx then [InvalidOriginalShardIndex (dw_K w) idx]
   else if pmem (dw_received w) (dw_obase w + idx) then [DuplicateOriginalShardIndex idx] else []) ++
  adm_len (dw_sb w) shard.
Definition adm_dec_addr (w : decwork) (idx : N) (shard : bytes) : list error :=
  (if dw_R w <=? idx then [InvalidRecoveryShardIndex (dw_R w) idx]
   else if pmem (dw_received w) (dw_rbase w + idx) then [DuplicateRecoveryShardIndex idx] else []) ++
  adm_len (dw_sb w) shard.

(* ---------- one-shot encode ---------- *)
Definition adm_oneenc (K R : N) (shards : list bytes) : list error :=
  if negb (default_supportsb K R) then [UnsupportedShardCount K R]
  else match shards with
       | [] => [TooFewOriginalShards K 0]
       | first :: _ =>
         let sb := blen first in
         if bad_size sb then [InvalidShardSize sb]
         else
           let cnt := N.of_nat (length shards) in
           flat_map (adm_len sb) (firstn (N.to_nat K) shards) ++
           (if K <? cnt then [TooManyOriginalShards K] else []) ++
           (if cnt <? K then [TooFewOriginalShards K cnt] else [])
       end.

(* ---------- one-shot decode ---------- *)
(* first occurrences of in-range indexes with the right length, in order *)
Fixpoint dup_errors (mk : N -> error) (seen : list N) (l : list (N * bytes)) : list error :=
  match l with
  | [] => []
  | (i, _) :: rest =>
    if existsb (N.eqb i) seen then mk i :: dup_errors mk seen rest
    else dup_errors mk (i :: seen) rest
  end.
Fixpoint distinct_ok (sb bound : N) (seen : list N) (l : list (N * bytes)) : N :=
  match l with
  | [] => 0
  | (i, s) :: rest =>
    if (i <? bound) && (blen s =? sb) && negb (existsb (N.eqb i) seen)
    then 1 + distinct_ok sb bound (i :: seen) rest
    else distinct_ok sb bound seen rest
  end.
Definition adm_onedec (K R : N) (orig rec : list (N * bytes)) : list error :=
  if negb (default_supportsb K R) then [UnsupportedShardCount K R]
  else
    let sb := match rec, orig with
              | (_, s) :: _, _ => Some (blen s)
              | [], (_, s) :: _ => Some (blen s)
              | [], [] => None
              end in
    match sb with
    | None => [NotEnoughShards K 0 0]
    | Some sb =>
      if bad_size sb then [InvalidShardSize sb]
      else
        let inr_o := filter (fun p => fst p <? K) orig in
        let inr_r := filter (fun p => fst p <? R) rec in
        let hard :=
          map (fun p => InvalidOriginalShardIndex K (fst p)) (filter (fun p => K <=? fst p) orig) ++
          map (fun p => InvalidRecoveryShardIndex R (fst p)) (filter (fun p => R <=? fst p) rec) ++
          dup_errors DuplicateOriginalShardIndex [] inr_o ++
          dup_errors DuplicateRecoveryShardIndex [] inr_r ++
          flat_map (fun p => adm_len sb (snd p)) (orig ++ rec) in
        let o := distinct_ok sb K [] orig in
        let r := distinct_ok sb R [] rec in
        hard ++ (if o + r <? K then [NotEnoughShards K o r] else [])
    end.

Definition admissible (s : state) (o : op) : list error :=
  match o with
  | ENew c _ K R sb | ENewW c _ K R sb | DNew c _ K R sb | DNewW c _ K R sb
  | Validate c K R sb => adm_config c K R sb
  | EReset K R sb => match s_enc s with Some x => adm_config (e_codec x) K R sb | None => [] end
  | DReset K R sb => match s_dec s with Some x => adm_config (d_codec x) K R sb | None => [] end
  | EAdd shard => match s_enc s with Some x => adm_enc_add (e_work x) shard | None => [] end
  | EEncode _ =>
    match s_enc s with
    | Some x => let w := e_work x in
                if negb (ew_recv w =? ew_K w) then [TooFewOriginalShards (ew_K w) (ew_recv w)] else []
    | None => []
    end
  | DAddO idx shard => match s_dec s with Some x => adm_dec_addo (d_work x) idx shard | None => [] end
  | DAddR idx shard => match s_dec s with Some x => adm_dec_addr (d_work x) idx shard | None => [] end
  | DDecode _ =>
    match s_dec s with
    | Some x => let w := d_work x in
                if dw_orecv w + dw_rrecv w <? dw_K w
                then [NotEnoughShards (dw_K w) (dw_orecv w) (dw_rrecv w)] else []
    | None => []
    end
  | OneEnc K R shards => adm_oneenc K R shards
  | OneDec K R orig rec => adm_onedec K R orig rec
  | EParts | DParts | Supports _ _ _ => []
  end.
