(* Byte-level models of Engine::mul for every engine: engine_naive.rs,
   engine_nosimd.rs (Mul16 nibble tables), engine_ssse3.rs (mul_128: pshufb,
   psrlq+pand), engine_avx2.rs (mul_256: lane-local vpshufb on a broadcast LUT),
   engine_neon.rs (vqtbl1q_u8, vshrq_n_u8).  A vector is a list of bytes
   (least significant / lowest address first). *)
From Coq Require Import NArith List Bool.
From RS.Gen Require Import Prelude GenConsts.
From RS.Model Require Import Field Sched Layout.
Import ListNotations.
Local Open Scope N_scope.

Definition vec := list N.
Definition nthb (v : vec) (i : N) : N := nth (N.to_nat i) v 0.

(* ---------- tables (tables.rs: initialize_mul16 / initialize_mul128) ---------- *)
Definition mul16 (log_m k i : N) : N := mul (N.shiftl i (4 * k)) log_m.
Definition mul128_lo (log_m k : N) : vec := map (fun x => lo_byte (mul16 log_m k x)) (range 0 16).
Definition mul128_hi (log_m k : N) : vec := map (fun x => hi_byte (mul16 log_m k x)) (range 0 16).

(* ---------- Naive ---------- *)
Definition naive_mul_block (log_m : N) (b : vec) : vec :=
  let lo := firstn 32 b in let hi := skipn 32 b in
  let prods := map2 (fun l h => mul (N.lor l (N.shiftl h 8)) log_m) lo hi in
  map lo_byte prods ++ map hi_byte prods.

(* ---------- NoSimd ---------- *)
Definition nosimd_prod (log_m lo hi : N) : N :=
  N.lxor (N.lxor (N.lxor (mul16 log_m 0 (N.land lo 15)) (mul16 log_m 1 (N.shiftr lo 4)))
                 (mul16 log_m 2 (N.land hi 15))) (mul16 log_m 3 (N.shiftr hi 4)).
Definition nosimd_mul_block (log_m : N) (b : vec) : vec :=
  let lo := firstn 32 b in let hi := skipn 32 b in
  let prods := map2 (nosimd_prod log_m) lo hi in
  map lo_byte prods ++ map hi_byte prods.

(* ---------- x86 intrinsics ---------- *)
Definition vand (a b : vec) : vec := map2 N.land a b.
Definition vxor (a b : vec) : vec := map2 N.lxor a b.
Definition vset1 (n : nat) (x : N) : vec := repeat x n.
(* pshufb on one 128-bit lane *)
Definition pshufb (t idx : vec) : vec :=
  map (fun i => if N.testbit i 7 then 0 else nthb t (N.land i 15)) idx.
(* little-endian 64-bit word <-> 8 bytes *)
Fixpoint word_of (bs : list N) : N :=
  match bs with [] => 0 | b :: r => b + 256 * word_of r end.
Fixpoint bytes_of (n : nat) (w : N) : list N :=
  match n with O => [] | S k => N.land w 255 :: bytes_of k (N.shiftr w 8) end.
(* psrlq: logical right shift of every 64-bit lane *)
Fixpoint srli_epi64 (lanes : nat) (v : vec) (s : N) : vec :=
  match lanes with
  | O => []
  | S k => bytes_of 8 (N.shiftr (word_of (firstn 8 v)) s) ++ srli_epi64 k (skipn 8 v) s
  end.

(* Ssse3::mul_128 *)
Definition mul_128 (log_m : N) (value_lo value_hi : vec) : vec * vec :=
  let t k := (mul128_lo log_m k, mul128_hi log_m k) in
  let clr := vset1 16 15 in
  let d0 := vand value_lo clr in
  let plo := pshufb (fst (t 0)) d0 in let phi := pshufb (snd (t 0)) d0 in
  let d1 := vand (srli_epi64 2 value_lo 4) clr in
  let plo := vxor plo (pshufb (fst (t 1)) d1) in let phi := vxor phi (pshufb (snd (t 1)) d1) in
  let d0 := vand value_hi clr in
  let plo := vxor plo (pshufb (fst (t 2)) d0) in let phi := vxor phi (pshufb (snd (t 2)) d0) in
  let d1 := vand (srli_epi64 2 value_hi 4) clr in
  let plo := vxor plo (pshufb (fst (t 3)) d1) in let phi := vxor phi (pshufb (snd (t 3)) d1) in
  (plo, phi).
Definition ssse3_mul_block (log_m : N) (b : vec) : vec :=
  let x0_lo := firstn 16 b in let x1_lo := firstn 16 (skipn 16 b) in
  let x0_hi := firstn 16 (skipn 32 b) in let x1_hi := skipn 48 b in
  let '(p0lo, p0hi) := mul_128 log_m x0_lo x0_hi in
  let '(p1lo, p1hi) := mul_128 log_m x1_lo x1_hi in
  p0lo ++ p1lo ++ p0hi ++ p1hi.

(* vpshufb: two independent 128-bit lanes; the LUT is broadcast (vbroadcasti128) *)
Definition vpshufb (t idx : vec) : vec :=
  pshufb (firstn 16 t) (firstn 16 idx) ++ pshufb (skipn 16 t) (skipn 16 idx).
Definition bcast (t : vec) : vec := t ++ t.
(* Avx2::mul_256 *)
Definition mul_256 (log_m : N) (value_lo value_hi : vec) : vec * vec :=
  let t k := (bcast (mul128_lo log_m k), bcast (mul128_hi log_m k)) in
  let clr := vset1 32 15 in
  let d0 := vand value_lo clr in
  let plo := vpshufb (fst (t 0)) d0 in let phi := vpshufb (snd (t 0)) d0 in
  let d1 := vand (srli_epi64 4 value_lo 4) clr in
  let plo := vxor plo (vpshufb (fst (t 1)) d1) in let phi := vxor phi (vpshufb (snd (t 1)) d1) in
  let d0 := vand value_hi clr in
  let plo := vxor plo (vpshufb (fst (t 2)) d0) in let phi := vxor phi (vpshufb (snd (t 2)) d0) in
  let d1 := vand (srli_epi64 4 value_hi 4) clr in
  let plo := vxor plo (vpshufb (fst (t 3)) d1) in let phi := vxor phi (vpshufb (snd (t 3)) d1) in
  (plo, phi).
Definition avx2_mul_block (log_m : N) (b : vec) : vec :=
  let '(plo, phi) := mul_256 log_m (firstn 32 b) (skipn 32 b) in plo ++ phi.

(* ---------- Neon intrinsics ---------- *)
Definition vqtbl1q (t idx : vec) : vec := map (fun i => if i <? 16 then nthb t i else 0) idx.
Definition vshrq_n (v : vec) (s : N) : vec := map (fun x => N.shiftr x s) v.
Definition neon_mul_128 (log_m : N) (value_lo value_hi : vec) : vec * vec :=
  let t k := (mul128_lo log_m k, mul128_hi log_m k) in
  let clr := vset1 16 15 in
  let d0 := vand value_lo clr in
  let plo := vqtbl1q (fst (t 0)) d0 in let phi := vqtbl1q (snd (t 0)) d0 in
  let d1 := vshrq_n value_lo 4 in
  let plo := vxor plo (vqtbl1q (fst (t 1)) d1) in let phi := vxor phi (vqtbl1q (snd (t 1)) d1) in
  let d0 := vand value_hi clr in
  let plo := vxor plo (vqtbl1q (fst (t 2)) d0) in let phi := vxor phi (vqtbl1q (snd (t 2)) d0) in
  let d1 := vshrq_n value_hi 4 in
  let plo := vxor plo (vqtbl1q (fst (t 3)) d1) in let phi := vxor phi (vqtbl1q (snd (t 3)) d1) in
  (plo, phi).
Definition neon_mul_block (log_m : N) (b : vec) : vec :=
  let x0_lo := firstn 16 b in let x1_lo := firstn 16 (skipn 16 b) in
  let x0_hi := firstn 16 (skipn 32 b) in let x1_hi := skipn 48 b in
  let '(p0lo, p0hi) := neon_mul_128 log_m x0_lo x0_hi in
  let '(p1lo, p1hi) := neon_mul_128 log_m x1_lo x1_hi in
  p0lo ++ p1lo ++ p0hi ++ p1hi.

Definition mul_block (e : engine) (log_m : N) (b : vec) : vec :=
  match e with
  | Naive => naive_mul_block log_m b
  | NoSimd => nosimd_mul_block log_m b
  | Ssse3 => ssse3_mul_block log_m b
  | Avx2 | DefaultE => avx2_mul_block log_m b
  | Neon => neon_mul_block log_m b
  end.

(* the field-level meaning of all of them: every lane multiplied by g^log_m *)
Definition spec_mul_block (log_m : N) (b : vec) : vec :=
  group_bytes (map (fun x => mul x log_m) (group_syms b)).
