(* C06 — invalid use yields a truthful documented Error; valid use never fails. *)
From Coq Require Import NArith Bool List.
From RS.Gen Require Import Prelude GenConsts GenRate GenGuards.
From RS.Model Require Import Field Sched Codec Machine Admissible Spec.
From RS.Proofs Require Import RateFacts MachineFacts GuardFacts StepAll.
Import ListNotations.
Local Open Scope N_scope.

(* count/size validation, about the translated source text, for all usize values:
   the reported error is the first violated precondition, Ok iff none is violated,
   and no arithmetic step overflows (the result is always a [Val]) *)
Theorem C06_counts : forall c K R sb,
  validate (sup_gen c) K R sb =
  Val (if negb (supportsb c K R) then RErr (UnsupportedShardCount K R)
       else if (sb =? 0) || N.odd sb then RErr (InvalidShardSize sb) else ROk tt).
Proof.
  intros. rewrite validate_codec_gen. unfold validateb, bad_size.
  destruct (negb (supportsb c K R)); [reflexivity|]. destruct ((sb =? 0) || N.odd sb); reflexivity.
Qed.
Print Assumptions C06_counts.

(* every call of the machine - new / reset / add / encode / decode / validate / supports on all codec
   types and the one-shot encode() / decode() -, in every state and for all argument values: *)
(* 1. an Err always names a precondition that the call really violates *)
Theorem C06_truthful : forall junk s o s' e, step junk s o = (s', RError e) -> In e (admissible s o).
Proof. exact step_err_truthful_all. Qed.
Print Assumptions C06_truthful.

(* 2. a call that violates no precondition does not fail *)
Theorem C06_valid_ok : forall (junk : N -> N -> N -> N) s o s' r,
  admissible s o = [] -> step junk s o = (s', r) -> forall e, r <> RError e.
Proof. exact step_valid_ok_all. Qed.
Print Assumptions C06_valid_ok.

(* 3. a call that violates one is rejected (never Ok) *)
Theorem C06_invalid_err : forall (junk : N -> N -> N -> N) s o,
  admissible s o <> [] -> exists e, snd (step junk s o) = RError e.
Proof. exact step_invalid_err_all. Qed.
Print Assumptions C06_invalid_err.

(* lifted to every reachable state: along ANY operation sequence from any state, a call returns an
   error exactly when it violates a precondition in the state it is made in, and the error reported
   is one of those that truthfully describe the violation *)
Definition errors_exact := StepAll.errors_exact.
Theorem C06_run : forall junk ops s, errors_exact junk s ops.
Proof. exact run_errors_exact. Qed.
Print Assumptions C06_run.

(* non-vacuity: a state in which several preconditions are violated at once *)
Example C06_example :
  let s := fst (step (fun _ _ _ => 0) init (DNew CHigh NoSimd 3 2 64)) in
  admissible s (DAddO 7 [1; 2; 3]) = [InvalidOriginalShardIndex 3 7; DifferentShardSize 64 3] /\
  snd (step (fun _ _ _ => 0) s (DAddO 7 [1; 2; 3])) = RError (InvalidOriginalShardIndex 3 7) /\
  snd (step (fun _ _ _ => 0) s (DAddO 18446744073709551615 [])) = RError (InvalidOriginalShardIndex 3 18446744073709551615).
Proof. vm_compute. repeat split. Qed.

(* ---- the error decisions of the model are the ones of the current Rust text: rs2v regenerates the
   decision trees of EncoderWork::add_original_shard / encode_begin and DecoderWork::add_original_shard /
   add_recovery_shard / decode_begin (Gen/GenGuards.v: conditions in source order, error variants with
   their field values) on every run; the model's functions take exactly those decisions ---- *)
Theorem C06_guards_enc : forall junk ep x s probes,
  gen_enc_add (ew_K (e_work x)) (ew_recv (e_work x)) (ew_sb (e_work x)) (blen s) =
    match enc_add x s with inr e => GErr e | inl _ => GOk 0 end /\
  gen_enc_begin (ew_K (e_work x)) (ew_recv (e_work x)) =
    match snd (enc_encode junk ep x probes) with RError e => GErr e | _ => GOk 0 end.
Proof. intros; split; [apply enc_add_guard|apply enc_begin_guard]. Qed.
Print Assumptions C06_guards_enc.
Theorem C06_guards_dec : forall junk ep x i s probes,
  gen_dec_add_original (dw_obase (d_work x)) (dw_K (d_work x)) (dw_sb (d_work x)) i (blen s) (pmem (dw_received (d_work x))) =
    match dec_add_original x i s with inr e => GErr e | inl _ => GOk 0 end /\
  gen_dec_add_recovery (dw_rbase (d_work x)) (dw_R (d_work x)) (dw_sb (d_work x)) i (blen s) (pmem (dw_received (d_work x))) =
    match dec_add_recovery x i s with inr e => GErr e | inl _ => GOk 0 end /\
  match gen_dec_begin (dw_K (d_work x)) (dw_orecv (d_work x)) (dw_rrecv (d_work x)) with
  | GErr e => snd (dec_decode junk ep x probes) = RError e
  | GOk 0 => dw_orecv (d_work x) = dw_K (d_work x) /\ exists pr, snd (dec_decode junk ep x probes) = RDec [] pr
  | GOk _ => dw_orecv (d_work x) <> dw_K (d_work x) /\ exists it pr, snd (dec_decode junk ep x probes) = RDec it pr
  | _ => False
  end.
Proof. intros; split; [apply dec_add_original_guard|split; [apply dec_add_recovery_guard|apply dec_begin_guard]]. Qed.
Print Assumptions C06_guards_dec.
