(* Length facts: transforms preserve the length of the work vector, encode yields exactly
   recovery_count elements, every element keeps its lane count. *)
From Coq Require Import NArith Arith Lia Bool List.
From RS.Gen Require Import Prelude GenConsts.
From RS.Model Require Import Field Tables Sched Codec Layout.
From RS.Proofs Require Import FieldFacts Param SchedEquiv RateFacts.
Import ListNotations.
Local Open Scope N_scope.

Section Len.
Context {T : Type} (ops : elt_ops T).
Variable skewf : N -> N.

Lemma two_layer_length (two : N -> N -> N -> (T * T) * (T * T) -> (T * T) * (T * T)) f d :
  forall r trunc sd l, (4 * d * f <= length l)%nat -> length (two_layer skewf two f d r trunc sd l) = length l.
Proof.
  induction f as [|f IH]; intros r trunc sd l Hl; cbn [two_layer]; [reflexivity|].
  destruct (r <? trunc); [|reflexivity].
  rewrite !app_length, !map_length, !combine_length, !firstn_length, !skipn_length, IH; rewrite ?skipn_length; lia.
Qed.

Lemma fold_length {A} (f : list T -> A -> list T) ds : (forall (l : list T) d, length (f l d) = length l) ->
  forall l, length (fold_left f ds l) = length l.
Proof. intros H. induction ds as [|d ds IH]; intros l; cbn; [reflexivity|]. rewrite IH. apply H. Qed.

Lemma naive_pass_len bf size trunc sd (l : list T) d : N.of_nat (length l) = size ->
  length (naive_pass skewf bf size trunc sd l d) = length l.
Proof.
  intros Hl. unfold naive_pass. apply glayer_length.
  destruct (N.eq_dec d 0) as [->|Hd]; [cbn; lia|].
  pose proof (N.mul_div_le size (2 * d) ltac:(lia)). lia.
Qed.
Lemma two_pass_len two trunc sd (l : list T) d : length (two_pass skewf two trunc sd l d) = length l.
Proof.
  unfold two_pass. apply two_layer_length.
  destruct (N.eq_dec d 0) as [->|Hd]; [cbn; lia|].
  pose proof (N.mul_div_le (N.of_nat (length l)) (4 * d) ltac:(lia)). lia.
Qed.

Lemma naive_fft_len size trunc sd (l : list T) : N.of_nat (length l) = size -> length (naive_fft ops skewf size trunc sd l) = length l.
Proof.
  intros Hl. unfold naive_fft.
  assert (G : forall ds l0, N.of_nat (length l0) = size -> length (fold_left (naive_pass skewf (fft_bf ops) size trunc sd) ds l0) = length l0).
  { induction ds as [|d ds IH]; intros l0 H0; [reflexivity|]. cbn [fold_left]. rewrite IH; rewrite naive_pass_len; auto. }
  apply G, Hl.
Qed.
Lemma naive_ifft_len size trunc sd (l : list T) : N.of_nat (length l) = size -> length (naive_ifft ops skewf size trunc sd l) = length l.
Proof.
  intros Hl. unfold naive_ifft.
  assert (G : forall ds l0, N.of_nat (length l0) = size -> length (fold_left (naive_pass skewf (ifft_bf ops) size trunc sd) ds l0) = length l0).
  { induction ds as [|d ds IH]; intros l0 H0; [reflexivity|]. cbn [fold_left]. rewrite IH; rewrite naive_pass_len; auto. }
  apply G, Hl.
Qed.
Lemma two_fft_len size trunc sd (l : list T) : N.of_nat (length l) = size -> length (two_fft ops skewf size trunc sd l) = length l.
Proof.
  intros Hl. unfold two_fft. destruct (dists4_down 17 size (N.shiftr size 2)) as [ds d4].
  assert (L : length (fold_left (two_pass skewf (fft_two ops) trunc sd) ds l) = length l) by (apply fold_length; intros; apply two_pass_len).
  destruct (d4 =? 2); [|exact L]. rewrite glayer_length; [exact L|].
  rewrite L. pose proof (N.mul_div_le size 2 ltac:(lia)) as Hd. assert (E : N.of_nat (2 * 1 * N.to_nat (size / 2)) <= N.of_nat (length l)) by (rewrite !Nat2N.inj_mul, N2Nat.id, Hl; change (N.of_nat 2) with 2; change (N.of_nat 1) with 1; lia). lia.
Qed.
Lemma two_ifft_len k trunc sd (l : list T) : (k <= 16)%nat -> N.of_nat (length l) = 2 ^ N.of_nat k ->
  length (two_ifft ops skewf (2 ^ N.of_nat k) trunc sd l) = length l.
Proof.
  intros Hk Hl. pose proof sched_ok_i_all as H. rewrite forallb_forall in H. specialize (H k ltac:(apply in_seq; lia)).
  unfold sched_ok_i in H. cbv zeta in H. unfold two_ifft. set (size := 2 ^ N.of_nat k) in *.
  destruct (dists4_up 17 1 4 size) as [ds d].
  apply andb_prop in H. destruct H as [_ H3].
  assert (L : length (fold_left (two_pass skewf (ifft_two ops) trunc sd) ds l) = length l) by (apply fold_length; intros; apply two_pass_len).
  destruct (d <? size) eqn:E; [|exact L]. cbn [negb orb] in H3. apply andb_prop in H3. destruct H3 as [H3 H4].
  apply N.eqb_eq in H3. apply N.ltb_lt in H4.
  assert (H2d : 2 * d <= size).
  { pose proof (N.mul_div_le size (2 * d) ltac:(lia)) as Hm. rewrite H3 in Hm. lia. }
  set (X := fold_left _ ds l) in *.
  pose proof (bf2_length (ifft_bf ops (skewf (d + sd - 1))) (firstn (N.to_nat d) X) (firstn (N.to_nat d) (skipn (N.to_nat d) X))) as [L1 L2].
  destruct (bf2 _ _ _) as [a' b']. cbn [fst snd] in L1, L2.
  rewrite !app_length, L1, L2, !firstn_length, !skipn_length.
  assert (2 * N.to_nat d <= length X)%nat by lia. lia.
Qed.
End Len.

Lemma fft_len {T} (ops : elt_ops T) e size trunc sd (l : list T) : N.of_nat (length l) = size -> length (fft ops e size trunc sd l) = length l.
Proof. intros. unfold fft. destruct (two_layer_engine e); [apply two_fft_len|apply naive_fft_len]; assumption. Qed.
Lemma ifft_len {T} (ops : elt_ops T) e k trunc sd (l : list T) : (k <= 16)%nat -> N.of_nat (length l) = 2 ^ N.of_nat k ->
  length (ifft ops e (2 ^ N.of_nat k) trunc sd l) = length l.
Proof. intros. unfold ifft. destruct (two_layer_engine e); [apply two_ifft_len|apply naive_ifft_len]; assumption. Qed.
