(* Runtime engine selection: the if-chains of DefaultEngine::new and
   DefaultEngine::eval_poly as data (Gen/GenDispatch.v, regenerated from
   engine_default.rs), and their interpretation. *)
From Coq Require Import NArith Bool List String.
From RS.Gen Require Import Prelude GenDispatch.
Import ListNotations.
Local Open Scope string_scope.

(* a CPU, as seen by runtime detection: its architecture and the set of reported features *)
Definition reports (mask : list string) (f : string) : bool := existsb (String.eqb f) mask.

(* first chain entry of this architecture whose feature is reported, else the fallback *)
Fixpoint select (chain : list (string * string * string)) (fallback arch : string) (mask : list string) : string :=
  match chain with
  | [] => fallback
  | (a, f, e) :: rest =>
    if String.eqb a arch && reports mask f then e else select rest fallback arch mask
  end.

(* the ISA an engine's code is compiled for ("" = portable) *)
Definition isa_of (e : string) : string :=
  match find (fun t => String.eqb (fst (fst t)) e) entry_points with
  | Some t => snd t
  | None => ""
  end.

(* capability order stated by the property: avx2 > ssse3 > portable; neon > portable *)
Definition rank (f : string) : nat :=
  if String.eqb f "avx2" then 2 else if String.eqb f "ssse3" then 1 else if String.eqb f "neon" then 1 else 0.

Definition arch_features (arch : string) : list string :=
  if String.eqb arch "x86" then ["avx2"; "ssse3"] else if String.eqb arch "aarch64" then ["neon"] else [].

Fixpoint subsets {A} (l : list A) : list (list A) :=
  match l with [] => [[]] | x :: r => let s := subsets r in s ++ map (cons x) s end.

(* every trait method of a SIMD engine calls only its own target_feature entry points *)
Definition entry_ok (e : string) : bool :=
  forallb (fun t => let '(eng, _, calls) := t in
             negb (String.eqb eng e) ||
             forallb (fun c => existsb (fun ep => let '(eng', fn, feat) := ep in
                                          String.eqb eng' e && String.eqb fn c && String.eqb feat (isa_of e))
                                       entry_points) calls)
          trait_calls.
