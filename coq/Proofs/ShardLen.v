(* C12 / C04: encode yields exactly recovery_count shards, each of exactly shard_bytes bytes. *)
From Coq Require Import NArith Arith Lia Bool List FMapPositive.
From RS.Gen Require Import Prelude GenConsts.
From RS.Model Require Import Field Tables Sched Codec Layout Machine.
From RS.Proofs Require Import FieldFacts Param Lengths RateFacts PermFacts Junk.
Import ListNotations.
Local Open Scope N_scope.

(* ---------- bytes <-> symbols lengths ---------- *)
Lemma group_bytes_len g : length (group_bytes g) = (2 * length g)%nat.
Proof. unfold group_bytes. rewrite app_length, !map_length. lia. Qed.
Lemma bytes_of_syms_fuel_len f : forall s, (length s <= 32 * f)%nat -> length (bytes_of_syms_fuel f s) = (2 * length s)%nat.
Proof.
  induction f as [|f IH]; intros s Hs; [destruct s; [reflexivity|cbn in Hs; lia]|].
  cbn [bytes_of_syms_fuel]. destruct s as [|x s]; [reflexivity|].
  rewrite app_length, group_bytes_len, IH; rewrite ?firstn_length, ?skipn_length; [|lia].
  set (n := length (x :: s)) in *. lia.
Qed.
Lemma bytes_of_syms_len s : length (bytes_of_syms s) = (2 * length s)%nat.
Proof.
  unfold bytes_of_syms. apply bytes_of_syms_fuel_len.
  pose proof (Nat.div_mod (length s) 32 ltac:(lia)). pose proof (Nat.mod_upper_bound (length s) 32 ltac:(lia)). lia.
Qed.

Lemma div2_double_le n : (Nat.div2 n + Nat.div2 n <= n)%nat.
Proof.
  induction n as [n IH] using (well_founded_induction lt_wf).
  destruct n as [|[|n]]; cbn; try lia. specialize (IH n ltac:(lia)). lia.
Qed.
Lemma group_syms_len g : length (group_syms g) = Nat.div2 (length g).
Proof.
  unfold group_syms. rewrite map_length, combine_length, firstn_length, skipn_length.
  pose proof (div2_double_le (length g)). lia.
Qed.
Lemma syms_of_bytes_fuel_len f : forall bs, (length bs <= 64 * f)%nat -> Nat.even (length bs) = true ->
  length (syms_of_bytes_fuel f bs) = Nat.div2 (length bs).
Proof.
  induction f as [|f IH]; intros bs Hb He; [destruct bs; [reflexivity|cbn in Hb; lia]|].
  cbn [syms_of_bytes_fuel]. destruct bs as [|x bs]; [reflexivity|].
  set (l := x :: bs) in *. rewrite app_length, group_syms_len, firstn_length.
  destruct (Nat.le_gt_cases 64 (length l)) as [Hge|Hlt].
  - rewrite IH; rewrite ?skipn_length; try lia.
    + replace (Nat.min 64 (length l)) with 64%nat by lia. cbn [Nat.div2].
      replace (length l) with (64 + (length l - 64))%nat at 2 by lia.
      assert (G : forall a, Nat.div2 (64 + a) = (32 + Nat.div2 a)%nat) by (intros; reflexivity). rewrite G. reflexivity.
    + replace (length l) with (64 + (length l - 64))%nat in He by lia.
      assert (G : forall a, Nat.even (64 + a) = Nat.even a) by (intros; reflexivity). rewrite G in He. exact He.
  - replace (Nat.min 64 (length l)) with (length l) by lia.
    rewrite skipn_all2 by lia. destruct f; cbn; lia.
Qed.
Lemma syms_of_bytes_len bs : Nat.even (length bs) = true -> length (syms_of_bytes bs) = Nat.div2 (length bs).
Proof.
  intros He. unfold syms_of_bytes. apply syms_of_bytes_fuel_len; [|exact He].
  pose proof (Nat.div_mod (length bs) 64 ltac:(lia)). pose proof (Nat.mod_upper_bound (length bs) 64 ltac:(lia)). lia.
Qed.

(* ---------- every element of the encode output has the lane count of the inputs ---------- *)
Section Lanes.
Variable lanes : nat.
Definition Rl (a b : list N) : Prop := length a = lanes.
Lemma Rl_xor a a' b b' : Rl a a' -> Rl b b' -> Rl (xorT (shard_ops lanes) a b) (xorT (shard_ops lanes) a' b').
Proof. unfold Rl. intros Ha Hb. cbn. unfold map2. rewrite map_length, combine_length, Ha, Hb. apply Nat.min_id. Qed.
Lemma Rl_mul a a' m : okm m -> Rl a a' -> Rl (mulT (shard_ops lanes) a m) (mulT (shard_ops lanes) a' m).
Proof. unfold Rl. intros _ Ha. cbn. rewrite map_length. exact Ha. Qed.
Lemma Rl_zero : Rl (zeroT (shard_ops lanes)) (zeroT (shard_ops lanes)).
Proof. unfold Rl. cbn. apply repeat_length. Qed.
Lemma Rl_refl w : Forall (fun s => length s = lanes) w -> Forall2 Rl w w.
Proof. induction 1; constructor; auto. Qed.
Lemma Rl_out a b : Forall2 Rl a b -> Forall (fun s => length s = lanes) a.
Proof. induction 1; constructor; auto. Qed.

Lemma encode_high_lanes_len e K R w : Forall (fun s => length s = lanes) w ->
  Forall (fun s => length s = lanes) (encode_high (shard_ops lanes) e K R w).
Proof. intros H. eapply Rl_out. apply (RL_encode_high _ _ Rl Rl_xor Rl_mul Rl_zero). apply Rl_refl, H. Qed.
Lemma encode_low_lanes_len e K R w : Forall (fun s => length s = lanes) w ->
  Forall (fun s => length s = lanes) (encode_low (shard_ops lanes) e K R w).
Proof. intros H. eapply Rl_out. apply (RL_encode_low _ _ Rl Rl_xor Rl_mul Rl_zero). apply Rl_refl, H. Qed.
End Lanes.

(* ---------- the encoder object ---------- *)
Definition enc_cfg (x : encoder) : Prop :=
  let w := e_work x in
  1 <= ew_K w /\ ew_K w < 65536 /\ 1 <= ew_R w /\ ew_R w < 65536 /\
  ew_wc w = enc_work_count (e_rate x) (ew_K w) (ew_R w) /\
  N.even (ew_sb w) = true /\
  (forall p s, mget (ew_mem w) p = Some s -> length s = N.to_nat (lanes_of (ew_sb w))).

Lemma supports_bounds c K R : supportsb c K R = true -> 1 <= K /\ K < 65536 /\ 1 <= R /\ R < 65536.
Proof.
  intros H. assert (Hhl : high_supportsb K R = true \/ low_supportsb K R = true).
  { destruct c; cbn in H; auto; apply default_char; exact H. }
  destruct Hhl as [Hh|Hl]; [unfold high_supportsb in Hh|unfold low_supportsb in Hl];
    repeat (match goal with H : _ && _ = true |- _ => apply andb_prop in H; destruct H end);
    repeat (match goal with H : (_ <? _) = true |- _ => apply N.ltb_lt in H end); unfold GF_ORDER in *; lia.
Qed.

Lemma enc_make_cfg c e K R sb w x a : enc_make c e K R sb w = inl (x, a) -> enc_cfg x.
Proof.
  unfold enc_make, validateb. destruct (supportsb c K R) eqn:Es; cbn [negb]; [|discriminate].
  destruct (bad_size sb) eqn:Eb; [discriminate|]. cbn. intros [= <- _]. unfold enc_cfg. cbn.
  destruct (supports_bounds c K R Es) as (A & B & C & D).
  repeat split; try assumption.
  - unfold bad_size in Eb. apply orb_false_iff in Eb. destruct Eb as [_ Eo]. rewrite <- N.negb_odd, Eo. reflexivity.
  - intros p s. unfold mget, mempty. rewrite PositiveMap.gempty. discriminate.
Qed.

Lemma odd_of_nat n : N.odd (N.of_nat n) = Nat.odd n.
Proof.
  induction n as [|n IH]; [reflexivity|]. rewrite Nat2N.inj_succ, N.odd_succ, Nat.odd_succ.
  rewrite <- N.negb_odd, <- Nat.negb_odd, IH. reflexivity.
Qed.
Lemma lanes_of_len sb (shard : bytes) : N.even sb = true -> blen shard = sb ->
  length (syms_of_bytes shard) = N.to_nat (lanes_of sb).
Proof.
  intros He Hl. unfold blen in Hl. rewrite syms_of_bytes_len.
  - unfold lanes_of. rewrite <- Hl. rewrite Nat.div2_div. rewrite <- (Nat2N.id (length shard / 2)).
    rewrite Nat2N.inj_div. reflexivity.
  - rewrite <- Hl in He. rewrite <- Nat.negb_odd. rewrite <- N.negb_odd in He. rewrite odd_of_nat in He. exact He.
Qed.

Lemma enc_add_cfg x s x' : enc_cfg x -> enc_add x s = inl x' -> enc_cfg x'.
Proof.
  intros (A & B & C & D & E & F & G). unfold enc_add. destruct (_ =? _); [discriminate|].
  destruct (negb (blen s =? ew_sb (e_work x))) eqn:El; [discriminate|]. intros [= <-]. unfold enc_cfg. cbn.
  repeat split; try assumption. intros p t. rewrite mget_mset. destruct (p =? ew_recv (e_work x)).
  - intros [= <-]. apply lanes_of_len; [exact F|]. apply negb_false_iff in El. apply N.eqb_eq. exact El.
  - apply G.
Qed.
Lemma enc_after_round_cfg x : enc_cfg x -> enc_cfg (enc_after_round x).
Proof.
  intros (A & B & C & D & E & F & G). unfold enc_cfg. cbn. repeat split; try assumption.
  intros p s. unfold mget, mempty. rewrite PositiveMap.gempty. discriminate.
Qed.

(* C12 / C04_len: exactly recovery_count shards of exactly shard_bytes bytes *)
Theorem enc_encode_shape junk ep x probes x' rec pr : enc_cfg x ->
  enc_encode junk ep x probes = (x', REnc rec pr) ->
  length rec = N.to_nat (ew_R (e_work x)) /\ Forall (fun b => blen b = ew_sb (e_work x)) rec.
Proof.
  intros (A & B & C & D & E & F & G). unfold enc_encode. destruct (negb _); [discriminate|]. intros [= _ <- _].
  unfold encode_shards. set (w := e_work x) in *. set (lanes := lanes_of (ew_sb w)).
  set (work := work_list junk ep (ew_mem w) (ew_wc w) lanes).
  assert (Lw : length work = N.to_nat (ew_wc w)).
  { unfold work, work_list, range. rewrite map_length, N.sub_0_r. clear. generalize 0. induction (N.to_nat (ew_wc w)); intros; cbn; auto. }
  assert (Fw : Forall (fun s => length s = N.to_nat lanes) work).
  { unfold work, work_list. apply Forall_forall. intros s Hs. apply in_map_iff in Hs. destruct Hs as (p & <- & _).
    destruct (mget (ew_mem w) p) eqn:Em; [apply (G p _ Em)|].
    unfold junk_shard, range. rewrite map_length, N.sub_0_r. clear. generalize 0. induction (N.to_nat lanes); intros; cbn; auto. }
  rewrite map_length. split.
  - destruct (e_rate x); cbn [enc_work_count] in E.
    + apply encode_high_length; try assumption. rewrite Lw, E. reflexivity.
    + apply encode_low_length; try assumption; [lia|]. rewrite Lw, E. unfold low_enc_work_count.
      assert (0 < np2 (ew_K w)) by (unfold np2; pose proof (npow2_ge (ew_K w)); lia).
      destruct (next_mult_bounds (ew_R w) (np2 (ew_K w)) ltac:(lia)) as (B1 & B2 & B3).
      assert (np2 (ew_K w) <= next_mult (ew_R w) (np2 (ew_K w))).
      { pose proof (N.div_mod (next_mult (ew_R w) (np2 (ew_K w))) (np2 (ew_K w)) ltac:(lia)) as Dm. rewrite B3, N.add_0_r in Dm.
        destruct (N.eq_dec (next_mult (ew_R w) (np2 (ew_K w)) / np2 (ew_K w)) 0) as [E0|E0]; [rewrite E0, N.mul_0_r in Dm; lia|].
        remember (next_mult (ew_R w) (np2 (ew_K w)) / np2 (ew_K w)) as qq. rewrite Dm. clear - E0 H. nia. }
      lia.
  - apply Forall_forall. intros b Hb. apply in_map_iff in Hb. destruct Hb as (s & <- & Hs).
    assert (Ls : length s = N.to_nat lanes).
    { destruct (e_rate x).
      - pose proof (encode_high_lanes_len (N.to_nat lanes) (e_engine x) (ew_K w) (ew_R w) work Fw) as Hf. rewrite Forall_forall in Hf. apply Hf, Hs.
      - pose proof (encode_low_lanes_len (N.to_nat lanes) (e_engine x) (ew_K w) (ew_R w) work Fw) as Hf. rewrite Forall_forall in Hf. apply Hf, Hs. }
    unfold blen. rewrite bytes_of_syms_len, Ls. unfold lanes, lanes_of.
    rewrite <- N.negb_odd in F. apply negb_true_iff in F.
    pose proof (N.div_mod (ew_sb w) 2 ltac:(lia)) as Dm.
    assert (ew_sb w mod 2 = 0).
    { rewrite <- N.bit0_mod, N.bit0_odd, F. reflexivity. }
    rewrite Nat2N.inj_mul, N2Nat.id. change (N.of_nat 2) with 2. lia.
Qed.
